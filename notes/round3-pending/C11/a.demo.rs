// Demonstration for seeded change C11 (a.patch.diff).
//
// Place this file at sim/elvis-core/tests/seeded_c11_demo.rs and run
//   cd sim && cargo nextest run -p elvis-core --features verif --test seeded_c11_demo --offline
// (or: cargo test -p elvis-core --features verif --test seeded_c11_demo --offline)
//
// Passes on the unmodified code, fails with a.patch.diff applied.
//
// A 128 byte datagram crosses a link with MTU 84 and then one with MTU 68,
// which yields the fragments (in 8 byte blocks) [0,6) [6,8) [8,14) [14,16).
// Only [14,16) and [0,6) are delivered, so half of the datagram is missing
// and nothing may be returned.

use elvis_core::{
    protocols::ipv4::{
        fragmentation::{fragment, Fragments},
        ipv4_parsing::{ControlFlags, Ipv4Header, TypeOfService},
        verif::{ReceivePacketResult, Reassembly},
        Ipv4Address,
    },
    Message,
};

const LEN: u16 = 128;

fn header() -> Ipv4Header {
    Ipv4Header {
        ihl: 5,
        type_of_service: TypeOfService::DEFAULT,
        total_length: 20 + LEN,
        identification: 7,
        fragment_offset: 0,
        flags: ControlFlags::DEFAULT,
        time_to_live: 30,
        protocol: 17,
        checksum: 0,
        source: Ipv4Address::new([10, 0, 0, 1]),
        destination: Ipv4Address::new([10, 0, 0, 2]),
    }
}

fn split(header: Ipv4Header, body: Message, mtu: u16) -> Vec<(Ipv4Header, Message)> {
    match fragment(header, body, mtu) {
        Fragments::Fragmented(fragments) => fragments,
        Fragments::DontFragment(whole) => vec![whole],
        Fragments::Discard => panic!("datagram may be fragmented"),
    }
}

fn fragments() -> (Message, Vec<(Ipv4Header, Message)>) {
    let payload = Message::new((0..LEN).map(|i| i as u8).collect::<Vec<_>>());
    let mut out = vec![];
    for (h, b) in split(header(), payload.clone(), 84) {
        out.extend(split(h, b, 68));
    }
    let offsets: Vec<_> = out.iter().map(|(h, _)| h.fragment_offset).collect();
    assert_eq!(offsets, [0, 6, 8, 14]);
    (payload, out)
}

#[test]
fn incomplete_datagram_is_not_returned() {
    let (_, frags) = fragments();
    let mut reassembly = Reassembly::new();
    for i in [3, 0] {
        let (h, b) = frags[i].clone();
        let result = reassembly.receive_packet(h, b);
        assert!(
            matches!(result, ReceivePacketResult::Incomplete(..)),
            "fragments [6,8) and [8,14) never arrived, but got {result:?}"
        );
    }
}

#[test]
fn complete_datagram_is_returned_intact() {
    let (payload, frags) = fragments();
    let mut reassembly = Reassembly::new();
    let mut done = None;
    for i in [3, 0, 2, 1] {
        assert!(done.is_none(), "returned before all fragments arrived");
        let (h, b) = frags[i].clone();
        if let ReceivePacketResult::Complete(h, m) = reassembly.receive_packet(h, b) {
            done = Some((h, m));
        }
    }
    let (h, m) = done.expect("all fragments delivered");
    assert_eq!(h, header());
    assert_eq!(m.to_vec(), payload.to_vec());
}
