// Demonstration for seeded change C20/a.
//
// Placement: copy this file to sim/elvis-core/tests/dns_non_ascii_name.rs
// Run with:  cd sim && cargo nextest run -p elvis-core --test dns_non_ascii_name --offline
//       (or: cd sim && cargo test -p elvis-core --test dns_non_ascii_name --offline)
//
// The authoritative server has a record for a name that contains characters
// outside ASCII ("müller.example"). A client resolves that name (and then
// resolves it a second time, which must be answered from its cache). On the
// unmodified code both lookups return the registered address. With the
// seeded change the server decodes the bytes of the question name one byte
// per character, looks up "mÃ¼ller.example", finds nothing, and the client
// never gets its answer.

use elvis_core::{
    machine::Machine,
    message::Message,
    new_machine_arc,
    protocol::{DemuxError, StartError},
    protocols::{
        dns::{
            dns_client::DnsClient,
            dns_parsing::{DnsHeader, DnsMessage, DnsMessageType, DnsQuestion, DnsResourceRecord},
            dns_server::DnsServer,
        },
        ipv4::{Ipv4, Ipv4Address, Recipient},
        Arp, Pci, SocketAPI, Udp,
    },
    run_internet_with_timeout, Control, ExitStatus, IpTable, Network, Protocol, Session, Shutdown,
};
use std::{
    sync::{Arc, Mutex},
    time::Duration,
};
use tokio::sync::Barrier;

const NAME: &str = "müller.example";
const PLAIN: &str = "plain.example";

type Results = Arc<Mutex<Vec<(String, Ipv4Address)>>>;

/// Application that resolves the given names in order through the machine's
/// DnsClient, records the answers and then ends the simulation.
struct Resolver {
    names: Vec<String>,
    results: Results,
}

#[async_trait::async_trait]
impl Protocol for Resolver {
    async fn start(
        &self,
        shutdown: Shutdown,
        initialized: Arc<Barrier>,
        machine: Arc<Machine>,
    ) -> Result<(), StartError> {
        initialized.wait().await;
        let names = self.names.clone();
        let results = self.results.clone();
        tokio::spawn(async move {
            let dns = machine.protocol::<DnsClient>().unwrap();
            for name in names {
                let ip = dns
                    .get_host_by_name(name.clone(), machine.clone())
                    .await
                    .unwrap();
                results.lock().unwrap().push((name, ip));
            }
            shutdown.shut_down_with_status(ExitStatus::Status(7));
        });
        Ok(())
    }

    fn demux(
        &self,
        _message: Message,
        _caller: Arc<dyn Session>,
        _control: Control,
        _machine: Arc<Machine>,
    ) -> Result<(), DemuxError> {
        Ok(())
    }
}

async fn resolve(names: &[&str], queries_on_the_wire: u16) -> (ExitStatus, Vec<(String, Ipv4Address)>) {
    let network = Network::basic();
    let ip_table: IpTable<Recipient> = [("0.0.0.0/0", Recipient::new(0, None))]
        .into_iter()
        .collect();
    let client_ip: Ipv4Address = [123, 45, 67, 60].into();

    let server = DnsServer::new(queries_on_the_wire);
    server.add_mapping(NAME.to_string(), [10, 1, 2, 3].into());
    server.add_mapping(PLAIN.to_string(), [10, 9, 9, 9].into());

    let results: Results = Default::default();
    let machines = vec![
        new_machine_arc![
            Udp::new(),
            Ipv4::new(ip_table.clone()),
            Arp::new(),
            Pci::new([network.clone()]),
            SocketAPI::new(Some(Ipv4Address::DNS_AUTH)),
            server,
        ],
        new_machine_arc![
            Udp::new(),
            Ipv4::new(ip_table.clone()),
            Arp::new(),
            Pci::new([network.clone()]),
            SocketAPI::new(Some(client_ip)),
            DnsClient::new(),
            Resolver {
                names: names.iter().map(|n| n.to_string()).collect(),
                results: results.clone(),
            },
        ],
    ];
    let status = run_internet_with_timeout(&machines, Duration::from_secs(3)).await;
    let got = results.lock().unwrap().clone();
    (status, got)
}

/// Control: an all-ASCII name resolves (with and without the change).
#[tokio::test(flavor = "multi_thread")]
async fn ascii_name_resolves() {
    let (status, got) = resolve(&[PLAIN, PLAIN], 1).await;
    assert_eq!(status, ExitStatus::Status(7));
    let want: Ipv4Address = [10, 9, 9, 9].into();
    assert_eq!(got, vec![(PLAIN.to_string(), want), (PLAIN.to_string(), want)]);
}

/// The property: a registered name made of printable characters resolves to
/// the registered address, and again (from the cache) on the second lookup.
#[tokio::test(flavor = "multi_thread")]
async fn non_ascii_name_resolves_to_registered_address() {
    let (status, got) = resolve(&[NAME, NAME], 1).await;
    assert_eq!(
        status,
        ExitStatus::Status(7),
        "the client never finished resolving {NAME:?}"
    );
    let want: Ipv4Address = [10, 1, 2, 3].into();
    assert_eq!(got, vec![(NAME.to_string(), want), (NAME.to_string(), want)]);
}

/// The same thing without a simulation: the name the server extracts from a
/// query that went over the wire is the name the client asked for.
#[test]
fn server_sees_the_name_that_was_asked_for() {
    let query = DnsMessage::new(
        DnsHeader::new(0x1234, DnsMessageType::QUERY),
        DnsQuestion::new(Vec::from(NAME)),
        DnsResourceRecord::new(Vec::from(NAME), 0, Ipv4Address::new([0, 0, 0, 0])),
    )
    .unwrap();
    let wire = query.to_message().unwrap().to_vec();
    let parsed = DnsMessage::from_bytes(wire.into_iter()).unwrap();
    assert_eq!(parsed.header.id, 0x1234);
    assert_eq!(parsed.question.query_name().unwrap(), NAME);
}
