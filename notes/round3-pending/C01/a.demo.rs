// Demonstration for seeded defect C01 (partially acknowledged segment).
//
// Place this file at sim/elvis-core/tests/seeded_c01_partial_ack.rs and run
//
//   cd sim && cargo test -p elvis-core --features verif --offline \
//       --test seeded_c01_partial_ack
//
// (the `verif` feature re-exports the otherwise private `Tcb` API under
// `elvis_core::protocols::tcp::verif`; without the feature the file compiles
// to nothing).
//
// Scenario, on a perfectly reliable network (nothing is lost, duplicated or
// reordered):
//   1. A writes 100 bytes, B buffers them but its application does not read.
//   2. A writes 140_000 bytes (more than the 64 KiB window). B's receive
//      buffer has room for 65_435 bytes only, so the 46th segment of the burst
//      is accepted *partially* and B acknowledges a sequence number in the
//      middle of that segment.
//   3. B's application finally reads and keeps reading eagerly from then on.
// All 140_100 bytes must reach B's application, everything must be
// acknowledged and both sides must fall silent.
#![cfg(feature = "verif")]

use elvis_core::{
    protocols::{
        ipv4::Ipv4Address,
        tcp::verif::{segment_arrives_listen, ListenResult, State, Tcb},
        Endpoint, Endpoints,
    },
    Message,
};
use std::time::Duration;

const MTU: u32 = 1500;

fn established_pair(iss_a: u32, iss_b: u32) -> (Tcb, Tcb) {
    let a_id = Endpoints::new(
        Endpoint::new(Ipv4Address::new([10, 0, 0, 1]), 0xcafe),
        Endpoint::new(Ipv4Address::new([10, 0, 0, 2]), 0xdead),
    );
    let mut a = Tcb::open(a_id, iss_a, MTU as _);
    let syn = a.segments().remove(0);
    let mut b = match segment_arrives_listen(
        syn,
        a_id.remote.address,
        a_id.local.address,
        iss_b,
        MTU as _,
    ) {
        Some(ListenResult::Tcb(tcb)) => tcb,
        other => panic!("no tcb: {other:?}"),
    };
    for _ in 0..4 {
        for s in b.segments() {
            let _ = a.segment_arrives(s);
        }
        for s in a.segments() {
            let _ = b.segment_arrives(s);
        }
    }
    assert_eq!(a.status(), State::Established);
    assert_eq!(b.status(), State::Established);
    (a, b)
}

/// One lossless, in-order exchange in both directions. Returns the number of
/// segments that were put on the wire.
fn exchange(a: &mut Tcb, b: &mut Tcb) -> usize {
    let mut n = 0;
    for s in a.segments() {
        n += 1;
        let _ = b.segment_arrives(s);
    }
    for s in b.segments() {
        n += 1;
        let _ = a.segment_arrives(s);
    }
    n
}

#[test]
fn late_reader_gets_every_byte_after_partially_accepted_segment() {
    let (mut a, mut b) = established_pair(1000, 5000);

    let small: Vec<u8> = (0..100u32).map(|i| (i * 7) as u8).collect();
    let big: Vec<u8> = (0..140_000u32).map(|i| (i % 251) as u8).collect();
    let mut expected = small.clone();
    expected.extend_from_slice(&big);

    // 1. small write, delivered and acknowledged, not read by B's application
    a.send(Message::new(small));
    for _ in 0..3 {
        exchange(&mut a, &mut b);
    }

    // 2. big write while B's application is still not reading
    a.send(Message::new(big));
    for _ in 0..3 {
        exchange(&mut a, &mut b);
    }

    // 3. B's application wakes up and reads eagerly; timers keep firing
    let mut received: Vec<u8> = vec![];
    let mut last_round_segments = usize::MAX;
    for _ in 0..400 {
        received.extend(b.receive().iter());
        assert!(
            expected.starts_with(&received),
            "delivered bytes are not a prefix of the submitted bytes"
        );
        last_round_segments = exchange(&mut a, &mut b);
        let _ = a.advance_time(Duration::from_millis(150));
        let _ = b.advance_time(Duration::from_millis(150));
    }
    received.extend(b.receive().iter());

    assert_eq!(
        received.len(),
        expected.len(),
        "stream stalled: only {} of {} bytes were delivered after 400 retransmission timeouts on a lossless network",
        received.len(),
        expected.len()
    );
    assert_eq!(received, expected);
    assert_eq!(
        last_round_segments, 0,
        "endpoints keep transmitting although everything was delivered"
    );
}
