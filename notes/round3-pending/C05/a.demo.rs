// Demonstration for seeded defect C05 (MTU check on the tap truncates the frame length).
//
// Placement: copy this file to  sim/elvis-core/tests/seeded_c05_demo.rs
// Run:       cd sim && cargo test -p elvis-core --test seeded_c05_demo --offline
//
// (add `-- --nocapture --test-threads 1` to see the assertion message: run_internet
//  installs a panic hook that exits the process, so a failing assertion shows up as
//  "test exited abnormally / exit status 1" rather than a normal FAILED line.)
//
// Uses only the public API of elvis-core. Passes on the unmodified code (3 passed), fails
// with a.patch.diff applied (oversized_frame_beyond_u16_is_refused and
// frame_just_above_the_maximum_mtu_is_refused fail; mtu_boundary_ordinary_sizes passes).

use elvis_core::{
    machine::Machine,
    new_machine_arc,
    protocol::{DemuxError, StartError},
    protocols::Pci,
    run_internet,
    session::SendError,
    Control, Message, Network, Protocol, Session, Shutdown,
};
use elvis_core::network::NetworkBuilder;
use std::{
    any::TypeId,
    sync::{Arc, Mutex},
    time::Duration,
};
use tokio::sync::Barrier;

/// Records the length of every frame that comes up from the tap.
#[derive(Default)]
struct Sink {
    seen: Arc<Mutex<Vec<usize>>>,
}

#[async_trait::async_trait]
impl Protocol for Sink {
    async fn start(
        &self,
        _shutdown: Shutdown,
        initialized: Arc<Barrier>,
        _machine: Arc<Machine>,
    ) -> Result<(), StartError> {
        initialized.wait().await;
        Ok(())
    }

    fn demux(
        &self,
        message: Message,
        _caller: Arc<dyn Session>,
        _control: Control,
        _machine: Arc<Machine>,
    ) -> Result<(), DemuxError> {
        self.seen.lock().unwrap().push(message.len());
        Ok(())
    }
}

/// Sends the configured frames from slot 0 once everybody is up, records the
/// results, then shuts the simulation down a little later.
struct Sender {
    dest: Option<u64>,
    sizes: Vec<usize>,
    results: Arc<Mutex<Vec<(usize, Result<(), SendError>)>>>,
}

#[async_trait::async_trait]
impl Protocol for Sender {
    async fn start(
        &self,
        shutdown: Shutdown,
        initialized: Arc<Barrier>,
        machine: Arc<Machine>,
    ) -> Result<(), StartError> {
        initialized.wait().await;
        let tap = machine.protocol::<Pci>().unwrap().open(0);
        for &size in &self.sizes {
            let result = tap.send_pci(Message::new(vec![0xA5u8; size]), self.dest, TypeId::of::<Sink>());
            self.results.lock().unwrap().push((size, result));
        }
        tokio::spawn(async move {
            tokio::time::sleep(Duration::from_millis(200)).await;
            shutdown.shut_down();
        });
        Ok(())
    }

    fn demux(
        &self,
        _message: Message,
        _caller: Arc<dyn Session>,
        _control: Control,
        _machine: Arc<Machine>,
    ) -> Result<(), DemuxError> {
        Ok(())
    }
}

async fn run(network: Arc<Network>, sizes: Vec<usize>) -> (Vec<(usize, Result<(), SendError>)>, Vec<usize>) {
    let results = Arc::new(Mutex::new(Vec::new()));
    let seen = Arc::new(Mutex::new(Vec::new()));

    let sender_pci = Pci::new([network.clone()]);
    let receiver_pci = Pci::new([network.clone()]);
    let dest = receiver_pci.mac_addresses().next();

    let machines = vec![
        new_machine_arc![
            sender_pci,
            Sender {
                dest,
                sizes,
                results: results.clone(),
            }
        ],
        new_machine_arc![receiver_pci, Sink { seen: seen.clone() }],
    ];
    run_internet(&machines, Some(Duration::from_secs(5))).await;
    let r = results.lock().unwrap().clone();
    let s = seen.lock().unwrap().clone();
    (r, s)
}

/// Ordinary sizes around the boundary behave (this also passes with the defect).
#[tokio::test(flavor = "multi_thread", worker_threads = 2)]
async fn mtu_boundary_ordinary_sizes() {
    let network = NetworkBuilder::new().mtu(1500).build();
    let (results, mut seen) = run(network, vec![1499, 1500, 1501, 3000]).await;
    assert_eq!(
        results,
        vec![
            (1499, Ok(())),
            (1500, Ok(())),
            (1501, Err(SendError::Mtu(1500))),
            (3000, Err(SendError::Mtu(1500))),
        ]
    );
    seen.sort();
    assert_eq!(seen, vec![1499, 1500]);
}

/// A frame whose length does not fit in 16 bits must still be refused and must
/// never reach the wire, on a small-MTU network ...
#[tokio::test(flavor = "multi_thread", worker_threads = 2)]
async fn oversized_frame_beyond_u16_is_refused() {
    let network = NetworkBuilder::new().mtu(1500).build();
    let size = 65_536 + 100; // (size as u16) == 100 <= 1500
    let (results, seen) = run(network, vec![size]).await;
    assert_eq!(results, vec![(size, Err(SendError::Mtu(1500)))], "oversized frame accepted by the sender");
    assert!(seen.is_empty(), "oversized frame appeared on the wire: {:?}", seen);
}

/// ... and on the default network, whose MTU is the largest representable one.
#[tokio::test(flavor = "multi_thread", worker_threads = 2)]
async fn frame_just_above_the_maximum_mtu_is_refused() {
    let network = Network::basic();
    let (results, mut seen) = run(network, vec![65_535, 65_536]).await;
    assert_eq!(
        results,
        vec![(65_535, Ok(())), (65_536, Err(SendError::Mtu(u16::MAX)))],
        "frame one byte above the maximum MTU accepted by the sender"
    );
    seen.sort();
    assert_eq!(seen, vec![65_535]);
}
