// Demonstration for seeded change C02/a.
//
// Place this file at  sim/elvis-core/tests/seeded_c02_a.rs  and run
//   cd sim && cargo nextest run -p elvis-core --test seeded_c02_a --offline
// (or: cargo test -p elvis-core --test seeded_c02_a --offline)
//
// A client writes 4 bytes ("AAAA") and, 100 ms later, 8 bytes ("BBBBBBBB") on
// a stream socket. The server accepts, waits until both writes have arrived
// and then reads twice with a read size of 6. The first read has to combine
// the whole first message with the head of the second one; the tail of the
// second message must be returned by the next read. The stream must come out
// as "AAAABB" + "BBBBBB".

use elvis_core::{
    message::Message,
    new_machine_arc,
    protocol::{DemuxError, StartError},
    protocols::{
        ipv4::{Ipv4, Ipv4Address, Recipient},
        socket_api::socket::{ProtocolFamily, SocketType},
        Arp, Endpoint, Pci, SocketAPI, Tcp,
    },
    run_internet_with_timeout, Control, IpTable, Machine, Network, Protocol, Session, Shutdown,
};
use std::{
    sync::{Arc, Mutex},
    time::Duration,
};
use tokio::{sync::Barrier, time::sleep};

type Reads = Arc<Mutex<Vec<Vec<u8>>>>;

struct Server {
    address: Endpoint,
    reads: Reads,
}

#[async_trait::async_trait]
impl Protocol for Server {
    async fn start(
        &self,
        shutdown: Shutdown,
        initialized: Arc<Barrier>,
        machine: Arc<Machine>,
    ) -> Result<(), StartError> {
        let api = machine.protocol::<SocketAPI>().unwrap();
        let mut listener = api
            .new_socket(ProtocolFamily::INET, SocketType::Stream, machine.clone())
            .await
            .unwrap();
        listener.bind(self.address).unwrap();
        listener.listen(4).unwrap();
        initialized.wait().await;

        let reads = self.reads.clone();
        tokio::spawn(async move {
            let mut socket = listener.accept().await.unwrap();
            // Let both writes of the client arrive before reading
            sleep(Duration::from_millis(600)).await;
            for _ in 0..2 {
                let data = tokio::time::timeout(Duration::from_secs(1), socket.recv(6)).await;
                match data {
                    Ok(Ok(data)) => reads.lock().unwrap().push(data),
                    _ => break,
                }
            }
            shutdown.shut_down();
        });
        Ok(())
    }

    fn demux(
        &self,
        _message: Message,
        _caller: Arc<dyn Session>,
        _control: Control,
        _machine: Arc<Machine>,
    ) -> Result<(), DemuxError> {
        Ok(())
    }
}

struct Client {
    server: Endpoint,
}

#[async_trait::async_trait]
impl Protocol for Client {
    async fn start(
        &self,
        shutdown: Shutdown,
        initialized: Arc<Barrier>,
        machine: Arc<Machine>,
    ) -> Result<(), StartError> {
        let api = machine.protocol::<SocketAPI>().unwrap();
        let mut socket = api
            .new_socket(ProtocolFamily::INET, SocketType::Stream, machine.clone())
            .await
            .unwrap();
        initialized.wait().await;

        let server = self.server;
        tokio::spawn(async move {
            socket.connect(server).await.unwrap();
            socket.send(b"AAAA".to_vec()).unwrap();
            sleep(Duration::from_millis(100)).await;
            socket.send(b"BBBBBBBB".to_vec()).unwrap();
            // Keep the socket (and the simulation) alive until the server is done
            let _ = shutdown.receiver().recv().await;
            drop(socket);
        });
        Ok(())
    }

    fn demux(
        &self,
        _message: Message,
        _caller: Arc<dyn Session>,
        _control: Control,
        _machine: Arc<Machine>,
    ) -> Result<(), DemuxError> {
        Ok(())
    }
}

#[tokio::test(flavor = "multi_thread", worker_threads = 2)]
async fn read_spanning_two_messages_keeps_the_tail() {
    let network = Network::basic();
    let server_ip: Ipv4Address = [10, 0, 0, 1].into();
    let client_ip: Ipv4Address = [10, 0, 0, 2].into();
    let server_address = Endpoint::new(server_ip, 80);
    let ip_table: IpTable<Recipient> = [("0.0.0.0/0", Recipient::new(0, None))]
        .into_iter()
        .collect();
    let reads: Reads = Default::default();

    let machines = vec![
        new_machine_arc![
            Tcp::new(),
            Ipv4::new(ip_table.clone()),
            Pci::new([network.clone()]),
            Arp::new(),
            SocketAPI::new(Some(server_ip)),
            Server {
                address: server_address,
                reads: reads.clone(),
            },
        ],
        new_machine_arc![
            Tcp::new(),
            Ipv4::new(ip_table.clone()),
            Pci::new([network.clone()]),
            Arp::new(),
            SocketAPI::new(Some(client_ip)),
            Client {
                server: server_address,
            },
        ],
    ];

    let _ = run_internet_with_timeout(&machines, Duration::from_secs(5)).await;

    let reads = reads.lock().unwrap().clone();
    for read in &reads {
        assert!(read.len() <= 6, "a read returned more than requested");
    }
    let stream: Vec<u8> = reads.concat();
    assert_eq!(
        String::from_utf8_lossy(&stream),
        "AAAABBBBBBBB",
        "bytes were lost, duplicated or reordered; reads = {:?}",
        reads
    );
}
