#![no_main]
//! One libFuzzer target for every synchronous check: the part is chosen by the environment
//! (VERIF_FUZZ_PROPERTY / VERIF_FUZZ_PART); the bytes are the entropy of one case and the semantic
//! oracle of the check runs inside the target.
use libfuzzer_sys::fuzz_target;
use std::sync::OnceLock;

static WHICH: OnceLock<(String, String)> = OnceLock::new();

fuzz_target!(|data: &[u8]| {
    let (prop, part) = WHICH.get_or_init(|| (std::env::var("VERIF_FUZZ_PROPERTY").expect("VERIF_FUZZ_PROPERTY"), std::env::var("VERIF_FUZZ_PART").expect("VERIF_FUZZ_PART")));
    vh::fuzz_one(prop, part, data);
});
