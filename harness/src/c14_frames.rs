//! C14 (c): a frame whose headers fail to decode at some layer is dropped at that layer: it reaches
//! no application, changes no connection, and the simulation keeps running.

use crate::c02_sockets::{build_and_run, gen_case, judge, Act, Script};
use crate::codecs::decode_all;
use crate::engine::*;
use crate::ensure;
use elvis_core::protocols::arp::arp_parsing::ArpPacket;
use elvis_core::protocols::ipv4::ipv4_parsing::Ipv4Header;
use elvis_core::protocols::ipv4::Ipv4Address;
use elvis_core::protocols::tcp::TcpHeader;
use elvis_core::protocols::udp::UdpHeader;
use serde_json::json;

pub struct MalformedFrames;

fn ipv4_header(src: [u8; 4], dst: [u8; 4], proto: u8, payload_len: usize) -> Vec<u8> {
    let total = (20 + payload_len) as u16;
    let mut h = vec![0x45, 0, (total >> 8) as u8, total as u8, 0, 0, 0, 0, 30, proto, 0, 0];
    h.extend_from_slice(&src);
    h.extend_from_slice(&dst);
    h
}

/// at which layer does the stack's own decoder reject this frame? None = it decodes everywhere
fn rejected_at(is_arp: bool, bytes: &[u8]) -> Result<Option<&'static str>, Failure> {
    if is_arp {
        return Ok(if decode_all(3, bytes)? { None } else { Some("arp") });
    }
    let ip = match guard(|| Ipv4Header::from_bytes(bytes.iter().cloned()))? {
        Ok(h) => h,
        Err(_) => return Ok(Some("ipv4")),
    };
    let rest = &bytes[20..];
    match ip.protocol {
        17 => match guard(|| UdpHeader::from_bytes_ipv4(rest.iter().cloned(), rest.len(), ip.source, ip.destination))? {
            Err(_) => Ok(Some("udp")),
            // a datagram for the DHCP server port whose body the DHCP decoder rejects fails to decode at the DHCP layer
            Ok(u) if u.destination == 67 && rest.len() >= 8 => Ok(if guard(|| elvis_core::protocols::dhcp::dhcp_parsing::DhcpMessage::from_bytes(rest[8..].iter().cloned()))?.is_ok() { None } else { Some("dhcp") }),
            Ok(_) => Ok(None),
        },
        6 => Ok(if guard(|| TcpHeader::from_bytes(rest.iter().cloned(), rest.len(), ip.source, ip.destination))?.is_ok() { None } else { Some("tcp") }),
        _ => Ok(None),
    }
}

/// Independent judgement: is the frame malformed by the RFC layouts alone (whatever the stack's decoders say)?
fn malformed_by_rfc(is_arp: bool, b: &[u8]) -> Option<&'static str> {
    if is_arp {
        if b.len() < 28 {
            return Some("arp");
        }
        let oper = u16::from_be_bytes([b[6], b[7]]);
        return if oper == 1 || oper == 2 { None } else { Some("arp") };
    }
    if b.len() < 20 || b[0] >> 4 != 4 || (b[0] & 0xf) < 5 || (b[0] & 0xf) as usize * 4 > b.len() {
        return Some("ipv4");
    }
    let total = u16::from_be_bytes([b[2], b[3]]) as usize;
    if total < (b[0] & 0xf) as usize * 4 {
        return Some("ipv4");
    }
    // (a total length larger than the frame is not judged here: the stack's IPv4 decoder reads a byte iterator and
    // cannot see the frame length; whether such a datagram must be dropped is not settled by C14's statement)
    let frag = u16::from_be_bytes([b[6], b[7]]);
    if (frag & 0x1fff) as usize * 8 + total > 65535 {
        return Some("ipv4"); // a piece that ends beyond the largest datagram
    }
    if frag & 0x3fff != 0 {
        return Some("fragment"); // a lone piece of a datagram whose other pieces never come: it must never be delivered
    }
    if b[0] & 0xf != 5 {
        return None; // options: valid by RFC, outside this harness's judgement
    }
    let rest = &b[20..];
    match b[9] {
        17 => {
            if rest.len() < 8 {
                return Some("udp");
            }
            let l = u16::from_be_bytes([rest[4], rest[5]]) as usize;
            if l < 8 || l > rest.len() {
                return Some("udp");
            }
            None
        }
        6 => {
            if rest.len() < 20 {
                return Some("tcp");
            }
            let off = (rest[12] >> 4) as usize * 4;
            if off < 20 || off > rest.len() {
                return Some("tcp");
            }
            None
        }
        _ => None,
    }
}

impl Check for MalformedFrames {
    fn id(&self) -> &'static str {
        "C14.frames"
    }
    fn rule(&self) -> String {
        "generated: a small client/server TCP stream transfer over the full stack (as in C02, loss-free) plus a UDP listener and a DHCP server on the server machine, and 1..10 raw frames injected by a third machine while the transfer runs: IPv4+UDP datagrams to the listener and to the DHCP server's port (bodies cut short, message type out of range, strings that are not UTF-8), IPv4+TCP segments addressed to the live connection's endpoints (or other ports) and ARP packets, each derived from a valid packet by truncation at any length, mutation of 1..3 header bytes, an extreme length / data-offset / version field, and sent to the server's or client's MAC or as a link broadcast; a frame is injected if it is malformed by the RFC layout as judged by the harness alone (too short for its header, version/IHL/total length inconsistent, a fragment ending beyond 65535 bytes, a lone fragment whose other pieces never come, UDP length or TCP data offset pointing outside the segment, invalid ARP operation) or if the stack's own decoder for some layer (called directly by the harness) rejects it; oracle: no injected payload ever reaches the UDP listener, the concurrent TCP transfer completes byte-exact, the run ends with the normal status, no task panics. non-trivial: at least one injected frame passes the IPv4 decoder and is rejected by the UDP or TCP decoder, or is a rejected ARP packet. distinct: hash of decoded case".into()
    }
    fn max_entropy(&self) -> usize {
        500
    }
    fn run(&self, e: &mut Entropy, ctx: &mut Ctx) -> Result<(), Failure> {
        // the transfer itself takes its few parameters from the end of the entropy; the injection plan is decoded first
        let mut zero = Entropy::new(&[]);
        let mut case = gen_case(&mut zero, 0);
        // a compact, loss-free transfer with one client
        case.nclients = 1;
        case.client_scripts.truncate(1);
        case.server_scripts.truncate(1);
        case.start_delays.truncate(1);
        case.plan = vec![0];
        case.arp = e.bool();
        case.mtu = 200 + e.choose(1300) as u16;
        case.latency_ms = *e.pick(&[0u64, 1, 7]);
        let cw = 200 + e.choose(3000);
        let sw = 200 + e.choose(3000);
        // the transfer spans 100 ms of virtual time so that every injection (0..70 ms) happens while it is running
        case.client_scripts[0] = Script { acts: vec![Act::Write(cw / 3), Act::Sleep(40), Act::Write(cw / 3), Act::Sleep(60), Act::Write(cw - 2 * (cw / 3))], writes_total: cw, reads_total: sw, drain_chunk: 500 };
        case.server_scripts[0] = Script { acts: vec![Act::Write(sw)], writes_total: sw, reads_total: cw, drain_chunk: 700 };
        let server = [10, 1, 0, 1];
        let client = [10, 1, 0, 10];
        let ninj = 1 + e.choose(10);
        let mut classes = vec![];
        let mut beyond_ip = false;
        let mut tags: Vec<Vec<u8>> = vec![];
        for k in 0..ninj {
            let kind = e.weighted(&[4, 4, 2]);
            let (is_arp, mut bytes) = match kind {
                0 => {
                    // UDP to the listener
                    let tag = vec![0xEE, 0x14, k as u8, 0x77, 1, 2, 3, 4];
                    tags.push(tag.clone());
                    let src = if e.bool() { client } else { [10, 1, 0, 77] };
                    let mut b = ipv4_header(src, server, 17, 8 + tag.len());
                    b.extend_from_slice(&(4000u16 + k as u16).to_be_bytes());
                    b.extend_from_slice(&9u16.to_be_bytes());
                    b.extend_from_slice(&((8 + tag.len()) as u16).to_be_bytes());
                    b.extend_from_slice(&[0, 0]);
                    b.extend_from_slice(&tag);
                    (false, b)
                }
                1 => {
                    // TCP segment towards the live connection (client port 49152 <-> server port 80) or elsewhere
                    let to_server = e.bool();
                    let (src, dst, sp, dp) = if to_server { (client, server, 49152u16, 80u16) } else { (server, client, 80u16, 49152u16) };
                    let (sp, dp) = if e.chance(1, 4) { (e.u16(), e.u16()) } else { (sp, dp) };
                    let plen = e.choose(40);
                    let mut b = ipv4_header(src, dst, 6, 20 + plen);
                    b.extend_from_slice(&sp.to_be_bytes());
                    b.extend_from_slice(&dp.to_be_bytes());
                    b.extend_from_slice(&e.u32().to_be_bytes());
                    b.extend_from_slice(&e.u32().to_be_bytes());
                    b.push(0x50);
                    b.push(*e.pick(&[0x10u8, 0x18, 0x02, 0x04, 0x11]));
                    b.extend_from_slice(&[0xff, 0xff, 0, 0, 0, 0]);
                    b.extend((0..plen).map(|i| 0xC0 ^ i as u8));
                    (false, b)
                }
                _ => (true, ArpPacket::new_request(e.choose(5) as u64, Ipv4Address::new(client), Ipv4Address::new(server)).build()),
            };
            // damage it
            let hdr_off = if is_arp { 0 } else { 20 };
            match e.weighted(&[3, 3, 3, 2]) {
                0 => {
                    let l = e.choose(bytes.len());
                    bytes.truncate(l);
                }
                1 => {
                    for _ in 0..1 + e.choose(3) {
                        let i = e.choose(bytes.len().min(hdr_off + 20));
                        bytes[i] = if e.bool() { e.u8() } else { bytes[i] ^ (1 << e.choose(8)) };
                    }
                }
                2 => {
                    // extreme structural fields: transport data offset / length, IPv4 version+ihl / total length
                    if !is_arp && bytes.len() > hdr_off + 13 && e.chance(2, 3) {
                        if bytes[9] == 6 {
                            bytes[hdr_off + 12] = *e.pick(&[0x00u8, 0x40, 0x60, 0x70, 0xf0, 0x10]);
                            if e.bool() {
                                bytes.truncate(hdr_off + 20);
                                let tl = bytes.len() as u16;
                                bytes[2..4].copy_from_slice(&tl.to_be_bytes());
                            }
                        } else {
                            let v = *e.pick(&[0u16, 7, 9, 0xffff, 200]);
                            bytes[hdr_off + 4..hdr_off + 6].copy_from_slice(&v.to_be_bytes());
                        }
                    } else if !is_arp {
                        match e.choose(3) {
                            0 => bytes[0] = *e.pick(&[0x46u8, 0x44, 0x55, 0x65, 0x05]),
                            1 => bytes[2..4].copy_from_slice(&e.pick(&[0u16, 5, 19]).to_be_bytes()),
                            _ => bytes[6] |= 0x80,
                        }
                    } else if bytes.len() > 7 {
                        bytes[7] = *e.pick(&[0u8, 3, 9, 255]);
                    }
                }
                _ => {
                    let l = (hdr_off + e.choose(9)).min(bytes.len());
                    bytes.truncate(l);
                }
            }
            // injected if it is malformed by the RFC layout (judged by the harness alone) or rejected by the
            // stack's own decoder (stricter than the RFC in places: no options, reserved bits)
            let Some(layer) = malformed_by_rfc(is_arp, &bytes).or(rejected_at(is_arp, &bytes)?) else {
                ctx.excluded += 1;
                continue;
            };
            if layer != "ipv4" {
                beyond_ip = true;
            }
            classes.push(layer);
            let dest = match e.choose(4) {
                0 => Some(0u64),
                1 => Some(1u64),
                2 => None,
                _ => Some(0u64),
            };
            case.inject.push((e.choose(70) as u64, dest, is_arp, bytes));
        }
        // plus one classic malformed frame per case, aimed at the live connection / the listener
        {
            let tcp = |off: u8, len: usize, to_server: bool| -> Vec<u8> {
                let (src, dst, sp, dp) = if to_server { (client, server, 49152u16, 80u16) } else { (server, client, 80u16, 49152u16) };
                let mut b = ipv4_header(src, dst, 6, len);
                let mut t = vec![];
                t.extend_from_slice(&sp.to_be_bytes());
                t.extend_from_slice(&dp.to_be_bytes());
                t.extend_from_slice(&[0, 0, 0, 1, 0, 0, 0, 1, off, 0x10, 0xff, 0xff, 0, 0, 0, 0]);
                t.resize(len.max(t.len()), 0xAB);
                t.truncate(len);
                b.extend(t);
                b
            };
            let udp = |len_field: u16, actual: usize| -> Vec<u8> {
                let mut b = ipv4_header([10, 1, 0, 77], server, 17, actual);
                let mut u = vec![0x0f, 0xa0, 0, 9];
                u.extend_from_slice(&len_field.to_be_bytes());
                u.extend_from_slice(&[0, 0, 0xEE, 0x14, 0xFF, 0x77, 9, 9, 9, 9]);
                u.truncate(actual);
                b.extend(u);
                b
            };
            let valid_dhcp: Vec<u8> = elvis_core::protocols::dhcp::dhcp_parsing::DhcpMessage::to_message(elvis_core::protocols::dhcp::dhcp_parsing::DhcpMessage::default()).map(|m| m.to_vec()).unwrap_or_else(|_| vec![0; 32]);
            let dhcp = |body: &[u8]| -> Vec<u8> {
                let mut b = ipv4_header([10, 1, 0, 77], server, 17, 8 + body.len());
                b.extend_from_slice(&[0x00, 0x44, 0x00, 0x43]);
                b.extend_from_slice(&((8 + body.len()) as u16).to_be_bytes());
                b.extend_from_slice(&[0, 0]);
                b.extend_from_slice(body);
                b
            };
            tags.push(vec![0xEE, 0x14, 0xFF, 0x77]);
            let to_server = e.bool();
            let classic: Vec<(bool, Vec<u8>)> = vec![
                (false, tcp(0x60, 20, to_server)),
                (false, tcp(0xf0, 20, to_server)),
                (false, tcp(0x70, 24, to_server)),
                (false, tcp(0x50, 19, to_server)),
                (false, tcp(0x40, 20, to_server)),
                (false, udp(7, 16)),
                (false, udp(200, 16)),
                (false, udp(16, 7)),
                (false, {
                    let mut b = udp(16, 16);
                    b[2] = 0;
                    b[3] = 19;
                    b
                }),
                (false, {
                    let mut b = udp(16, 16);
                    b[0] = 0x65;
                    b
                }),
                (true, {
                    let mut a = ArpPacket::new_request(2, Ipv4Address::new(client), Ipv4Address::new(server)).build();
                    a[7] = 3;
                    a
                }),
                (true, ArpPacket::new_request(2, Ipv4Address::new(client), Ipv4Address::new(server)).build()[..27].to_vec()),
                // the last fragments that end exactly in the top bytes of the 64 KiB space (offset 8191, 1..7 data bytes): legal
                // as pieces, never completed; and the same one byte too long
                (false, { let mut b = ipv4_header([10, 1, 0, 77], server, 17, 4); b.extend_from_slice(&[0xEE, 0x14, 0xFF, 0x77]); b[6] = 0x1f; b[7] = 0xff; b }),
                (false, { let mut b = ipv4_header([10, 1, 0, 77], server, 17, 7); b.extend_from_slice(&[0xEE, 0x14, 0xFF, 0x77, 1, 2, 3]); b[6] = 0x1f; b[7] = 0xff; b }),
                (false, { let mut b = ipv4_header([10, 1, 0, 77], server, 17, 8); b.extend_from_slice(&[0xEE, 0x14, 0xFF, 0x77, 1, 2, 3, 4]); b[6] = 0x1f; b[7] = 0xff; b }),
                (false, { let mut b = ipv4_header([10, 1, 0, 77], server, 6, 1); b.push(0xAB); b[6] = 0x3f; b[7] = 0xff; b }),
                // datagrams for the DHCP server (port 67) with a body the DHCP decoder rejects: cut short, message type
                // out of range, a string that is not UTF-8
                (false, dhcp(&valid_dhcp[..valid_dhcp.len().min(7)])),
                (false, dhcp(&valid_dhcp[..valid_dhcp.len() - 1])),
                (false, dhcp(&[])),
                (false, { let mut d = valid_dhcp.clone(); d[28] = 0; dhcp(&d) }),
                (false, { let mut d = valid_dhcp.clone(); d[28] = 9; dhcp(&d) }),
                (false, { let mut d = valid_dhcp.clone(); if d.len() > 29 { d[29] = 0xff; } d.insert(29, 0xfe); dhcp(&d) }),
                // fragments: a piece that ends beyond 65535 ("ping of death"), lone first / middle / last pieces, and
                // total-length fields that lie about the frame (longer, shorter, maximal)
                (false, { let mut b = udp(16, 16); b[6] = 0x1f; b[7] = 0xff; b[2] = 0xff; b[3] = 0xff; b }),
                (false, { let mut b = udp(16, 16); b[6] = 0x0d; b[7] = 0x00; b[2] = 0x98; b[3] = 0x24; b }),
                (false, { let mut b = udp(16, 16); b[6] = 0x20; b[7] = 0x00; b }),
                (false, { let mut b = udp(16, 16); b[6] = 0x20; b[7] = 0x07; b }),
                (false, { let mut b = udp(16, 16); b[6] = 0x00; b[7] = 0x02; b }),
                (false, { let mut b = udp(16, 16); b[6] = 0x1f; b[7] = 0xff; b }),
                (false, { let mut b = udp(16, 16); b[2] = 0xff; b[3] = 0xff; b }),
                (false, { let mut b = udp(16, 16); b[2] = 0; b[3] = 21; b }),
                (false, { let mut b = tcp(0x50, 20, to_server); b[6] = 0x3f; b[7] = 0xff; b[2] = 0xff; b[3] = 0xff; b }),
            ];
            let (is_arp, bytes) = classic[e.choose(classic.len())].clone();
            if let Some(layer) = malformed_by_rfc(is_arp, &bytes).or(rejected_at(is_arp, &bytes)?) {
                if layer != "ipv4" {
                    beyond_ip = true;
                }
                classes.push(layer);
                let dest = if is_arp { None } else if to_server { Some(0u64) } else { Some(1u64) };
                case.inject.push((e.choose(70) as u64, dest, is_arp, bytes));
            }
        }
        if case.inject.is_empty() {
            return Ok(());
        }
        let out = build_and_run(&case);
        if std::env::var("VERIF_C14_DEBUG").is_ok() {
            eprintln!("injected {} classes {:?} panics {} status {} frames {}", case.inject.len(), classes, out.panics.len(), out.status, out.frames.len());
            for f in out.frames.iter().filter(|f| f.sender == 2) {
                eprintln!("  inj frame t={:?} dest {:?} proto {:?} len {} delivered {:?} undeliverable {}", f.t, f.dest, f.proto, f.bytes.len(), f.deliveries, f.undeliverable);
            }
        }
        if ctx.want_desc {
            ctx.desc = Some(json!({
                "arp": case.arp, "mtu": case.mtu, "client_writes": cw, "server_writes": sw,
                "injected": case.inject.iter().zip(classes.iter()).map(|(f, l)| format!("t={}ms to {:?} {} rejected at {}: {}", f.0, f.1, if f.2 { "ARP" } else { "IPv4" }, l, hex(&f.3))).collect::<Vec<_>>(),
                "status": out.status,
                "reports": out.reports.iter().map(|r| format!("{} {}: read {} done {} err {:?}", r.side, r.conn, r.read, r.done, r.error)).collect::<Vec<_>>(),
            }));
        }
        judge(&case, &out, ctx)?;
        let on_wire = out.frames.iter().filter(|f| case.inject.iter().any(|i| i.3 == f.bytes)).count();
        ensure!(on_wire >= case.inject.len(), "harness", "injection_missing", "only {} of {} injected frames were put on the wire (status {})", on_wire, case.inject.len(), out.status);
        for d in &out.demux {
            ensure!(!tags.iter().any(|t| d.payload.starts_with(&t[..4])), "dropped_at_failing_layer", "malformed_frame_delivered", "a frame whose header fails to decode reached the UDP listener: payload {}", hex(&d.payload));
        }
        ensure!(out.status == "Exited", "simulation_keeps_running", "status", "the run ended with status {} instead of the normal exit", out.status);
        ctx.nontrivial = beyond_ip;
        for c in classes {
            ctx.class(match c {
                "ipv4" => "rejected_at_ipv4",
                "udp" => "rejected_at_udp",
                "tcp" => "rejected_at_tcp",
                "fragment" => "lone_fragment",
                "dhcp" => "rejected_at_dhcp",
                _ => "rejected_at_arp",
            });
        }
        Ok(())
    }
}
