//! C15 (b): a DHCP server leases pairwise distinct addresses from its pool to concurrently
//! requesting clients, each client learns the address it was leased, released addresses can be leased again.

use crate::engine::*;
use crate::ensure;
use crate::sim::*;
use async_trait::async_trait;
use elvis::applications::DhcpServer;
use elvis::ip_generator::IpRange;
use elvis_core::ip_table::IpTable;
use elvis_core::machine::Machine;
use elvis_core::message::Message;
use elvis_core::network::NetworkBuilder;
use elvis_core::protocol::{DemuxError, StartError};
use elvis_core::protocols::dhcp::dhcp_client::DhcpClient;
use elvis_core::protocols::dhcp::dhcp_parsing::{DhcpMessage, MessageType};
use elvis_core::protocols::ipv4::{Ipv4Address, Recipient};
use elvis_core::protocols::pci::Pci;
use elvis_core::protocols::{Arp, Endpoint, Endpoints, Ipv4, Udp};
use elvis_core::{run_internet_with_timeout, Control, Protocol, Session, Shutdown};
use serde_json::json;
use std::sync::{Arc, Mutex};
use std::time::Duration;
use tokio::sync::Barrier;

/// On a client machine: waits for the lease, then (optionally) releases it at a given time.
struct LeaseWatcher {
    client: usize,
    release_at_ms: Option<u64>,
    server: Ipv4Address,
    log: Arc<Mutex<Vec<(usize, [u8; 4], Duration, bool)>>>, // (client, address, time, released)
    wire: Arc<Wire>,
}

#[async_trait]
impl Protocol for LeaseWatcher {
    async fn start(&self, _shutdown: Shutdown, initialized: Arc<Barrier>, machine: Arc<Machine>) -> Result<(), StartError> {
        initialized.wait().await;
        self.wire.mark_start();
        let (client, release_at, server, log, wire, id) = (self.client, self.release_at_ms, self.server, self.log.clone(), self.wire.clone(), self.id());
        tokio::spawn(async move {
            let t0 = tokio::time::Instant::now();
            let dhcp = machine.protocol::<DhcpClient>().unwrap();
            let ip = dhcp.ip_address().await;
            log.lock().unwrap().push((client, ip.to_bytes(), wire.now(), false));
            if let Some(at) = release_at {
                tokio::time::sleep_until(t0 + Duration::from_millis(at)).await;
                // read the address again: a duplicated exchange may have replaced it
                let ip = dhcp.ip_address().await;
                let udp = machine.protocol::<Udp>().unwrap();
                if let Ok(session) = udp.open_for_sending(id, Endpoints::new(Endpoint::new(Ipv4Address::CURRENT_NETWORK, 6800), Endpoint::new(server, 67)), machine.clone()).await {
                    let mut m = DhcpMessage::default();
                    m.msg_type = MessageType::Release;
                    m.your_ip = ip;
                    if let Ok(msg) = DhcpMessage::to_message(m) {
                        let _ = session.send(msg, machine.clone());
                        log.lock().unwrap().push((client, ip.to_bytes(), wire.now(), true));
                    }
                }
            }
        });
        Ok(())
    }
    fn demux(&self, _m: Message, _c: Arc<dyn Session>, _ctl: Control, _machine: Arc<Machine>) -> Result<(), DemuxError> {
        Ok(())
    }
}

pub struct DhcpLeases;

impl Check for DhcpLeases {
    fn id(&self) -> &'static str {
        "C15.dhcp"
    }
    fn rule(&self) -> String {
        "generated: a DHCP server with a pool of k consecutive addresses and 1..8 clients (Udp, Ipv4, Pci, DhcpClient, ARP on all or none) that all start together; per-frame plan over DHCP frames: extra delay 0..40 ms (reordering), a client's Discover delayed by 100..400 ms (late client), at most 2 duplicated frames; optionally one client releases its lease at 60..200 ms; the pool is large enough for every Discover that reaches the server; oracle: at the end every client holds an address from the pool; addresses held by clients that did not release are pairwise distinct; a client's address is one the server put into an Offer/Ack addressed to that client's MAC (read from the frame hook); a late client that starts after a release still ends with an address distinct from every other held one. non-trivial: >= 3 simultaneous clients, or a release followed by a later lease, or a duplicated DHCP frame. distinct: hash of decoded configuration".into()
    }
    fn max_entropy(&self) -> usize {
        200
    }
    fn run(&self, e: &mut Entropy, ctx: &mut Ctx) -> Result<(), Failure> {
        let n = 1 + e.choose(8);
        let arp = e.chance(1, 3);
        let delays: Vec<u64> = (0..10).map(|_| *e.pick(&[0u64, 0, 0, 2, 9, 40])).collect();
        let late: Option<(usize, u64)> = if n >= 2 && e.chance(1, 2) { Some((e.choose(n), 100 + e.choose(300) as u64)) } else { None };
        let releaser: Option<(usize, u64)> = if e.chance(1, 2) {
            let mut c = e.choose(n);
            if let Some((l, _)) = late {
                if l == c {
                    c = (c + 1) % n;
                }
            }
            if late.map(|l| l.0) == Some(c) {
                None
            } else {
                Some((c, 60 + e.choose(140) as u64))
            }
        } else {
            None
        };
        let ndup = e.weighted(&[3, 2, 1]);
        let dup_at: Vec<usize> = (0..ndup).map(|_| e.choose(4 * n)).collect();
        let pool_size = n + ndup * 2 + 2 + e.choose(3);
        let pool_lo: u32 = u32::from_be_bytes([10, 7, 0, 10]);
        let pool_hi = pool_lo + pool_size as u32 - 1;
        let server_ip = Ipv4Address::new([10, 7, 0, 1]);

        let wire = Wire::new();
        let dl = delays.clone();
        let dups = dup_at.clone();
        let late_c = late;
        wire.set_planner(Box::new(move |f, earlier| {
            if f.proto != Proto::Ipv4 {
                return Decision::default();
            }
            let k = earlier.iter().filter(|x| x.proto == Proto::Ipv4).count();
            let mut d = Decision { drop: false, delay_ms: dl[k % dl.len()], copies: vec![] };
            if dups.contains(&k) {
                d.copies.push(3);
            }
            // the late client's first frame (its Discover) is held back
            if let Some((c, ms)) = late_c {
                let mac = 1 + c as u64;
                if f.sender == mac && !earlier.iter().any(|x| x.proto == Proto::Ipv4 && x.sender == mac) {
                    d.delay_ms = ms;
                    d.copies.clear();
                }
            }
            d
        }));
        let net = NetworkBuilder::new().build();
        net.verif_set_hook(Some(wire.clone()));
        let table: IpTable<Recipient> = [("0.0.0.0/0", Recipient::new(0, None))].into_iter().collect();
        let log: Arc<Mutex<Vec<(usize, [u8; 4], Duration, bool)>>> = Default::default();
        let mut server = Machine::new().with(Pci::new([net.clone()])).with(Ipv4::new(table.clone())).with(Udp::new()).with(DhcpServer::new(server_ip, IpRange::new(Ipv4Address::from(pool_lo), Ipv4Address::from(pool_hi))));
        if arp {
            server = server.with(Arp::new());
        }
        let mut machines = vec![server.arc()];
        for c in 0..n {
            let mut m = Machine::new().with(Pci::new([net.clone()])).with(Ipv4::new(table.clone())).with(Udp::new()).with(DhcpClient::new(server_ip));
            if arp {
                m = m.with(Arp::new());
            }
            m = m.with(LeaseWatcher { client: c, release_at_ms: releaser.filter(|r| r.0 == c).map(|r| r.1), server: server_ip, log: log.clone(), wire: wire.clone() });
            machines.push(m.arc());
        }
        let _release = ReleaseOnDrop(machines.clone());
        let (_st, panics): (Option<_>, _) = run_virtual(async { run_internet_with_timeout(&machines, Duration::from_secs(6)).await });
        let frames = wire.snapshot();
        let lg = log.lock().unwrap().clone();
        // final addresses straight from the clients
        let finals: Vec<Option<[u8; 4]>> = machines[1..].iter().map(|m| m.protocol::<DhcpClient>().unwrap().ip_address.read().unwrap().map(|a| a.to_bytes())).collect();
        if ctx.want_desc {
            ctx.desc = Some(json!({
                "clients": n, "arp": arp, "pool": format!("{}..={}", Ipv4Address::from(pool_lo), Ipv4Address::from(pool_hi)), "late": format!("{late:?}"), "releaser": format!("{releaser:?}"), "dup_at": dup_at,
                "final": finals.iter().map(|f| format!("{f:?}")).collect::<Vec<_>>(),
                "log": lg.iter().map(|l| format!("client {} {} {:?} at {:?}", l.0, if l.3 { "released" } else { "leased" }, l.1, l.2)).collect::<Vec<_>>(),
            }));
        }
        panics_to_failure(&panics)?;
        // offers / acks per client MAC
        let mut given: Vec<Vec<[u8; 4]>> = vec![vec![]; n];
        for f in frames.iter().filter(|f| f.proto == Proto::Ipv4 && f.bytes.len() > 28 && f.bytes[9] == 17 && u16::from_be_bytes([f.bytes[20], f.bytes[21]]) == 67) {
            if let Ok(m) = DhcpMessage::from_bytes(f.bytes[28..].iter().cloned()) {
                if matches!(m.msg_type, MessageType::Offer | MessageType::Ack) {
                    if let Some(mac) = f.dest {
                        if mac >= 1 && (mac as usize) <= n {
                            given[mac as usize - 1].push(m.your_ip.to_bytes());
                        }
                    }
                }
            }
        }
        let released: Vec<usize> = lg.iter().filter(|l| l.3).map(|l| l.0).collect();
        for c in 0..n {
            let a = finals[c].ok_or(()).map_err(|_| Failure::new("client_learns_lease", "no_address", format!("client {c} never learned an address")))?;
            let x = u32::from_be_bytes(a);
            ensure!(x >= pool_lo && x <= pool_hi, "lease_from_pool", "outside_pool", "client {c} holds {:?}, outside the pool", a);
            ensure!(given[c].contains(&a), "client_learns_lease", "not_offered_to_this_client", "client {c} holds {:?} but the server only sent {:?} to its MAC", a, given[c]);
        }
        for c in 0..n {
            for d in (c + 1)..n {
                if released.contains(&c) || released.contains(&d) {
                    continue;
                }
                ensure!(finals[c] != finals[d], "distinct_leases", "same_address_twice", "clients {c} and {d} both hold {:?}", finals[c]);
            }
        }
        let dup_seen = frames.iter().any(|f| f.copies > 0);
        let release_then_lease = !released.is_empty() && late.is_some();
        ctx.nontrivial = n >= 3 || release_then_lease || dup_seen;
        if release_then_lease {
            ctx.class("release_followed_by_late_lease");
        }
        if dup_seen {
            ctx.class("duplicated_dhcp_frame");
        }
        if n >= 3 {
            ctx.class("three_or_more_clients");
        }
        if arp {
            ctx.class("with_arp");
        }
        Ok(())
    }
}
