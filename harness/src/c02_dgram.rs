//! C02 (datagram part): a datagram socket delivers each datagram intact or not at all, to the connected peer only.

use crate::c04_udp::{UdpSend, UdpSendResult, UdpSender};
use crate::engine::*;
use crate::sim::*;
use crate::{ensure, fail};
use async_trait::async_trait;
use elvis_core::ip_table::IpTable;
use elvis_core::machine::Machine;
use elvis_core::message::Message;
use elvis_core::network::NetworkBuilder;
use elvis_core::protocol::{DemuxError, StartError};
use elvis_core::protocols::ipv4::{Ipv4Address, Recipient};
use elvis_core::protocols::pci::Pci;
use elvis_core::protocols::socket_api::socket::{ProtocolFamily, SocketType};
use elvis_core::protocols::{Arp, Endpoint, Ipv4, SocketAPI, Udp};
use elvis_core::{run_internet_with_timeout, Control, Protocol, Session, Shutdown};
use serde_json::json;
use std::collections::BTreeMap;
use std::sync::{Arc, Mutex};
use std::time::Duration;
use tokio::sync::Barrier;

/// A datagram is identified by its first 6 bytes (origin, sequence number, length); the rest is a pattern of those.
/// origin: 0..=3 client c, 0x40 + c = server's reply on the socket connected to client c, 0x80.. = stranger.
pub fn dgram(origin: u8, seq: u16, len: usize) -> Vec<u8> {
    let len = len.max(6);
    let mut v = vec![origin, (seq >> 8) as u8, seq as u8, (len >> 16) as u8, (len >> 8) as u8, len as u8];
    let salt = origin.wrapping_mul(31) ^ (seq as u8).wrapping_mul(7);
    v.extend((6..len).map(|i| ((i as u32).wrapping_mul(2654435761) >> 13) as u8 ^ salt));
    v
}

fn check_intact(d: &[u8]) -> Result<(u8, u16), String> {
    if d.len() < 6 {
        return Err(format!("a {}-byte message was delivered; every datagram sent has at least 6 bytes", d.len()));
    }
    let (origin, seq) = (d[0], u16::from_be_bytes([d[1], d[2]]));
    let len = (d[3] as usize) << 16 | (d[4] as usize) << 8 | d[5] as usize;
    let want = dgram(origin, seq, len);
    if want.len() != d.len() {
        return Err(format!("datagram (origin {origin:#x}, seq {seq}) was sent with {} bytes and delivered with {}", want.len(), d.len()));
    }
    if let Some(i) = (0..d.len()).find(|i| d[*i] != want[*i]) {
        return Err(format!("datagram (origin {origin:#x}, seq {seq}, {} bytes): byte {i} is {:#04x}, sent {:#04x}", d.len(), d[i], want[i]));
    }
    Ok((origin, seq))
}

#[derive(Debug, Clone)]
pub struct Recvd {
    pub machine: usize,
    /// which socket of the machine returned it (the server's accepted sockets are numbered in accept order)
    pub sock: usize,
    pub data: Vec<u8>,
    pub asked: Option<usize>,
}

type RecvLog = Arc<Mutex<Vec<Recvd>>>;
type ErrLog = Arc<Mutex<Vec<String>>>;

#[derive(Debug, Clone)]
pub struct ClientPlan {
    pub start_ms: u64,
    /// (gap before this send in ms, length)
    pub sends: Vec<(u64, usize)>,
}

pub type Refused = Arc<Mutex<Vec<(u8, u16)>>>;

pub struct DgramClient {
    pub max_payload: usize,
    pub refused: Refused,
    pub c: usize,
    pub server: Endpoint,
    pub plan: ClientPlan,
    pub log: RecvLog,
    pub errs: ErrLog,
}

#[async_trait]
impl Protocol for DgramClient {
    async fn start(&self, _shutdown: Shutdown, initialized: Arc<Barrier>, machine: Arc<Machine>) -> Result<(), StartError> {
        initialized.wait().await;
        let (c, server, plan, log, errs, max_payload, refused) = (self.c, self.server, self.plan.clone(), self.log.clone(), self.errs.clone(), self.max_payload, self.refused.clone());
        tokio::spawn(async move {
            tokio::time::sleep(Duration::from_millis(plan.start_ms)).await;
            let api = machine.protocol::<SocketAPI>().unwrap();
            let mut sock = match api.new_socket(ProtocolFamily::INET, SocketType::Datagram, machine.clone()).await {
                Ok(s) => s,
                Err(e) => {
                    errs.lock().unwrap().push(format!("client {c}: new_socket: {e:?}"));
                    return;
                }
            };
            if let Err(e) = sock.connect(server).await {
                errs.lock().unwrap().push(format!("client {c}: connect: {e:?}"));
                return;
            }
            for (i, (gap, len)) in plan.sends.iter().enumerate() {
                if *gap > 0 {
                    tokio::time::sleep(Duration::from_millis(*gap)).await;
                }
                if let Err(e) = sock.send(dgram(c as u8, i as u16, *len)) {
                    if (*len).max(6) > max_payload {
                        refused.lock().unwrap().push((c as u8, i as u16));
                    } else {
                        errs.lock().unwrap().push(format!("client {c}: send #{i} ({len} bytes): {e:?}"));
                        return;
                    }
                }
            }
            // read replies until the simulation ends
            loop {
                match sock.recv_msg().await {
                    Ok(m) => log.lock().unwrap().push(Recvd { machine: 1 + c, sock: 0, data: m.to_vec(), asked: None }),
                    Err(_) => break,
                }
            }
        });
        Ok(())
    }
    fn demux(&self, _m: Message, _c: Arc<dyn Session>, _ctl: Control, _machine: Arc<Machine>) -> Result<(), DemuxError> {
        Ok(())
    }
}

pub struct DgramServer {
    pub max_payload: usize,
    pub refused: Refused,
    pub port: u16,
    pub backlog: usize,
    /// reply length for the k-th datagram read on one socket (0 = no reply)
    pub replies: Vec<usize>,
    /// how the accepted sockets read: None = recv_msg, Some(n) = recv(n)
    pub read_size: Option<usize>,
    pub accept_delay_ms: u64,
    pub log: RecvLog,
    pub errs: ErrLog,
}

#[async_trait]
impl Protocol for DgramServer {
    async fn start(&self, _shutdown: Shutdown, initialized: Arc<Barrier>, machine: Arc<Machine>) -> Result<(), StartError> {
        let api = machine.protocol::<SocketAPI>().unwrap();
        let mut listener = api.new_socket(ProtocolFamily::INET, SocketType::Datagram, machine.clone()).await.map_err(|_| StartError::Other)?;
        listener.bind(Endpoint::new(Ipv4Address::CURRENT_NETWORK, self.port)).map_err(|_| StartError::Other)?;
        listener.listen(self.backlog).map_err(|_| StartError::Other)?;
        initialized.wait().await;
        let (replies, read_size, log, errs, delay, max_payload, refused) = (self.replies.clone(), self.read_size, self.log.clone(), self.errs.clone(), self.accept_delay_ms, self.max_payload, self.refused.clone());
        tokio::spawn(async move {
            tokio::time::sleep(Duration::from_millis(delay)).await;
            let mut accepted = 0usize;
            loop {
                let mut sock = match listener.accept().await {
                    Ok(s) => s,
                    Err(_) => break,
                };
                let sock_no = accepted;
                accepted += 1;
                let (replies, log, errs, refused) = (replies.clone(), log.clone(), errs.clone(), refused.clone());
                tokio::spawn(async move {
                    let mut k = 0usize;
                    loop {
                        let (data, asked) = match read_size {
                            None => match sock.recv_msg().await {
                                Ok(m) => (m.to_vec(), None),
                                Err(_) => break,
                            },
                            Some(n) => match sock.recv(n).await {
                                Ok(d) => (d, Some(n)),
                                Err(_) => break,
                            },
                        };
                        let origin = data.first().copied().unwrap_or(0xff);
                        log.lock().unwrap().push(Recvd { machine: 0, sock: sock_no, data, asked });
                        let rl = replies.get(k).copied().unwrap_or(0);
                        if rl > 0 && asked.is_none() {
                            if let Err(e) = sock.send(dgram(0x40 | (origin & 0x3f), k as u16, rl)) {
                                if rl.max(6) > max_payload {
                                    refused.lock().unwrap().push((0x40 | (origin & 0x3f), k as u16));
                                } else {
                                    errs.lock().unwrap().push(format!("server: reply #{k} on accepted socket {sock_no}: {e:?}"));
                                }
                            }
                        }
                        k += 1;
                    }
                });
            }
        });
        Ok(())
    }
    fn demux(&self, _m: Message, _c: Arc<dyn Session>, _ctl: Control, _machine: Arc<Machine>) -> Result<(), DemuxError> {
        Ok(())
    }
}

pub struct DatagramSockets;

impl Check for DatagramSockets {
    fn id(&self) -> &'static str {
        "C02.dgram"
    }
    fn rule(&self) -> String {
        "generated: one server machine (Pci, Ipv4, Udp, SocketAPI, optional Arp) with a listening datagram socket whose accepted sockets read with recv_msg (or recv(n) in 1/5 of the cases) and answer the k-th datagram with a reply of generated length; 1..4 client machines with a connected datagram socket each sending 1..12 datagrams back-to-back or spaced (MTU 100..1500; lengths small, anywhere up to the largest payload one frame carries = MTU - 28, around that boundary, or larger: the stack does not fragment on sending, an oversized send() returns an error and that datagram must then never be delivered) and reading replies with recv_msg; optionally a stranger machine that sends well-formed datagrams from its own address (also from the server's port number) to the clients' socket endpoints, to other ports of the clients and to the server's port; late accept (datagrams stored before the accepted socket exists); per-frame plan over IPv4 frames: drop, duplicate, extra delay 0..30 ms. oracle: every message a socket returns is byte-for-byte one datagram that was sent (origin, sequence number and length are in its first 6 bytes, the rest is a pattern of them), it was sent by the socket's connected peer (remote endpoint) to this socket's local endpoint, and it is returned at most as often as the frames that carried it were delivered (once when nothing was duplicated); when no frame was dropped and the backlog is large enough every datagram addressed to a socket is returned by it; recv(n) returns at most n bytes; no socket call fails except send() of an oversized datagram; no panic. non-trivial: datagrams were returned on both sides and (a drop or duplicate of an IPv4 frame, or a stranger datagram, or >= 2 clients). distinct: hash of decoded configuration".into()
    }
    fn assumptions(&self) -> Vec<String> {
        vec!["current-thread runtime under virtual time; the order of datagrams is not part of the property and is not checked".into()]
    }
    fn max_entropy(&self) -> usize {
        400
    }
    fn run(&self, e: &mut Entropy, ctx: &mut Ctx) -> Result<(), Failure> {
        run_dgram(e, ctx).map(|_| ())
    }
}

/// One generated datagram-socket case; returns the frames seen on the wire (C18 verifies their checksums).
pub fn run_dgram(e: &mut Entropy, ctx: &mut Ctx) -> Result<Vec<FrameRec>, Failure> {
    {
        // plan first
        let fault_kind = e.weighted(&[3, 2, 2, 2]); // none, drops, dups, both
        let fault_pos: Vec<usize> = (0..e.choose(5)).map(|_| e.choose(60)).collect();
        let delays: Vec<u64> = (0..8).map(|_| *e.pick(&[0u64, 0, 0, 1, 4, 30])).collect();
        let nclients = 1 + e.weighted(&[3, 3, 2, 1]);
        let mtu = *e.pick(&[100u16, 128, 296, 576, 1500]);
        let max_payload = mtu as usize - 28;
        let arp = e.chance(1, 3);
        let latency = e.choose(4) as u64;
        let read_size = if e.chance(1, 5) { Some(*e.pick(&[1usize, 5, 64, 5000])) } else { None };
        let accept_delay = *e.pick(&[0u64, 0, 3, 40]);
        let stranger = e.chance(1, 2);
        let replies: Vec<usize> = (0..12).map(|_| if e.chance(1, 3) { 0 } else { gen_len(e, max_payload) }).collect();
        let mut plans = vec![];
        for _ in 0..nclients {
            let n = 1 + e.choose(12);
            let b2b = e.chance(1, 2);
            plans.push(ClientPlan { start_ms: *e.pick(&[0u64, 0, 1, 7, 50]), sends: (0..n).map(|_| (if b2b { 0 } else { *e.pick(&[0u64, 1, 3, 20]) }, gen_len(e, max_payload))).collect() });
        }
        let server_ip = Ipv4Address::new([10, 2, 0, 1]);
        let client_ip = |c: usize| Ipv4Address::new([10, 2, 0, 10 + c as u8]);
        let stranger_ip = Ipv4Address::new([10, 2, 0, 99]);
        // stranger datagrams: (at, local port, remote endpoint, len)
        let mut strays: Vec<UdpSend> = vec![];
        if stranger {
            for k in 0..(1 + e.choose(5)) {
                let c = e.choose(nclients);
                let sport = *e.pick(&[80u16, 80, 4000, 49152]);
                let remote = match e.weighted(&[4, 2, 2]) {
                    0 => Endpoint::new(client_ip(c), 49152), // the client's socket endpoint
                    1 => Endpoint::new(client_ip(c), *e.pick(&[81u16, 49153, 1])),
                    _ => Endpoint::new(server_ip, 80),
                };
                strays.push(UdpSend { at_ms: e.choose(80) as u64, local: Endpoint::new(stranger_ip, sport), remote, payload: dgram(0x80 + k as u8, k as u16, gen_len(e, max_payload).min(max_payload)), tag: k as u32 });
            }
        }
        // two stranger datagrams to the server from the same source endpoint are one "connection"; fine.

        let wire = Wire::new();
        let (fk, fp, dl) = (fault_kind, fault_pos.clone(), delays.clone());
        wire.set_planner(Box::new(move |f, earlier| {
            if f.proto != Proto::Ipv4 {
                return Decision::default();
            }
            let k = earlier.iter().filter(|x| x.proto == Proto::Ipv4).count();
            let mut d = Decision { drop: false, delay_ms: dl[k % dl.len()], copies: vec![] };
            if let Some(i) = fp.iter().position(|p| *p == k) {
                match (fk, i % 2) {
                    (1, _) | (3, 0) => d.drop = true,
                    (2, _) | (3, 1) => d.copies.push(2 + (k as u64 % 7)),
                    _ => {}
                }
            }
            d
        }));
        let net = NetworkBuilder::new().mtu(mtu).latency(elvis_core::network::Latency::constant(Duration::from_millis(latency))).build();
        net.verif_set_hook(Some(wire.clone()));
        let refused: Refused = Default::default();
        let log: RecvLog = Default::default();
        let errs: ErrLog = Default::default();
        let results: Arc<Mutex<Vec<UdpSendResult>>> = Default::default();
        let table: IpTable<Recipient> = [("0.0.0.0/0", Recipient::new(0, None))].into_iter().collect();
        let base = |ip: Ipv4Address| {
            let mut m = Machine::new().with(Pci::new([net.clone()])).with(Ipv4::new(table.clone())).with(Udp::new());
            if ip != stranger_ip {
                m = m.with(SocketAPI::new(Some(ip)));
            }
            if arp {
                m = m.with(Arp::new());
            }
            m
        };
        let mut machines = vec![base(server_ip).with(DgramServer { max_payload, refused: refused.clone(), port: 80, backlog: 16, replies: replies.clone(), read_size, accept_delay_ms: accept_delay, log: log.clone(), errs: errs.clone() }).arc()];
        for c in 0..nclients {
            machines.push(base(client_ip(c)).with(DgramClient { max_payload, refused: refused.clone(), c, server: Endpoint::new(server_ip, 80), plan: plans[c].clone(), log: log.clone(), errs: errs.clone() }).arc());
        }
        if stranger {
            let mut m = base(stranger_ip);
            if arp {
                // answers ARP for its own address
                m = with_recorder(m, 0, 9, &wire, &Default::default(), vec![Endpoint::new(stranger_ip, 9)], &Default::default());
            }
            machines.push(m.with(UdpSender { sends: strays.clone(), results: results.clone(), wire: wire.clone() }).arc());
        }
        let _release = ReleaseOnDrop(machines.clone());
        let (_st, panics) = run_virtual(async { run_internet_with_timeout(&machines, Duration::from_secs(8)).await });
        let frames = wire.snapshot();
        let got = log.lock().unwrap().clone();
        let refused = refused.lock().unwrap().clone();
        let errs = errs.lock().unwrap().clone();
        if ctx.want_desc {
            ctx.desc = Some(json!({
                "clients": nclients, "mtu": mtu, "arp": arp, "latency_ms": latency, "read_size": read_size, "accept_delay_ms": accept_delay,
                "plans": plans.iter().map(|p| format!("{p:?}")).collect::<Vec<_>>(), "replies": replies,
                "strays": strays.iter().map(|s| format!("at {} ms {:?} -> {:?} {} bytes", s.at_ms, s.local, s.remote, s.payload.len())).collect::<Vec<_>>(),
                "fault_kind": fault_kind, "fault_pos": fault_pos, "ipv4_frames": frames.iter().filter(|f| f.proto == Proto::Ipv4).count(),
                "dropped": frames.iter().filter(|f| f.dropped).count(), "duplicated": frames.iter().filter(|f| f.copies > 0).count(),
                "received": got.iter().map(|r| format!("m{} socket {} {} bytes origin {:#x}", r.machine, r.sock, r.data.len(), r.data.first().copied().unwrap_or(0))).collect::<Vec<_>>(),
                "errors": errs, "refused": format!("{refused:?}"),
            }));
        }
        panics_to_failure(&panics)?;
        ensure!(errs.is_empty(), "socket_calls_succeed", "socket_error", "{}", errs.join("; "));
        let dropped = frames.iter().filter(|f| f.proto == Proto::Ipv4 && f.dropped).count();
        let dups = frames.iter().filter(|f| f.proto == Proto::Ipv4 && f.copies > 0).count();

        // what was sent to whom: (origin, seq) -> (from endpoint address/port known?, to endpoint)
        // client c -> server:80 from (client_ip(c), 49152)
        let mut returned: BTreeMap<(usize, u8, u16), usize> = BTreeMap::new();
        let mut peers: BTreeMap<usize, Endpoint> = BTreeMap::new();
        for r in &got {
            if let Some(n) = r.asked {
                ensure!(r.data.len() <= n, "read_bounded", "recv_returns_more_than_asked", "recv({n}) on a datagram socket returned {} bytes", r.data.len());
                continue; // recv(n) may cut or join datagrams: bytes are not compared in this mode
            }
            let (origin, seq) = check_intact(&r.data).map_err(|m| Failure::new("datagram_intact", "delivered_datagram_differs", format!("machine {} socket {}: {m}", r.machine, r.sock)))?;
            *returned.entry((r.machine, origin, seq)).or_default() += 1;
            ensure!(!refused.contains(&(origin, seq)), "intact_or_not_at_all", "refused_datagram_delivered", "send() of datagram (origin {origin:#x}, seq {seq}, {} bytes) returned an error, yet machine {} received it", r.data.len(), r.machine);
            if r.machine == 0 {
                // an accepted socket of the server is connected to one remote endpoint: whatever it returns was sent from there to port 80 of the server
                let from = if origin < 0x40 {
                    Endpoint::new(client_ip(origin as usize), 49152)
                } else if origin >= 0x80 {
                    match strays.get((origin - 0x80) as usize) {
                        Some(s) if s.remote == Endpoint::new(server_ip, 80) => s.local,
                        _ => fail!("connected_peer_only", "foreign_datagram_returned", "a server socket returned stranger datagram {origin:#x} that was not addressed to the server"),
                    }
                } else {
                    fail!("connected_peer_only", "foreign_datagram_returned", "a server socket returned a server reply (origin {origin:#x})")
                };
                match peers.get(&r.sock) {
                    None => {
                        if let Some((other, _)) = peers.iter().find(|(_, ep)| **ep == from) {
                            fail!("connected_peer_only", "one_peer_two_sockets", "accepted sockets {other} and {} both returned datagrams sent by {:?}", r.sock, from);
                        }
                        peers.insert(r.sock, from);
                    }
                    Some(ep) => ensure!(*ep == from, "connected_peer_only", "foreign_datagram_returned", "accepted socket {} returned datagrams of {:?} and then datagram (origin {origin:#x}, seq {seq}) sent by {:?}", r.sock, ep, from),
                }
            } else {
                let c = r.machine - 1;
                ensure!(origin == 0x40 | c as u8, "connected_peer_only", "foreign_datagram_returned", "client {c}'s socket (connected to the server, port 80) returned datagram with origin {origin:#x}, seq {seq}{}", if origin >= 0x80 { format!(" sent by the stranger from {:?} to {:?}", strays[(origin - 0x80) as usize].local, strays[(origin - 0x80) as usize].remote) } else { String::new() });
            }
        }
        // at most once per delivery of the carrying frames
        for ((m, origin, seq), n) in &returned {
            if dups == 0 {
                ensure!(*n == 1, "no_duplicate", "datagram_returned_twice", "machine {m} returned datagram (origin {origin:#x}, seq {seq}) {n} times although no frame was duplicated");
            } else {
                ensure!(*n <= 1 + dups, "no_duplicate", "datagram_returned_twice", "machine {m} returned datagram (origin {origin:#x}, seq {seq}) {n} times with {dups} duplicated frames");
            }
        }
        // completeness when nothing was lost
        let mut missing = vec![];
        if dropped == 0 && read_size.is_none() {
            for c in 0..nclients {
                for (i, _) in plans[c].sends.iter().enumerate() {
                    if !returned.contains_key(&(0, c as u8, i as u16)) && !refused.contains(&(c as u8, i as u16)) {
                        missing.push(format!("client {c} datagram #{i} ({} bytes) never returned by the server's socket", plans[c].sends[i].1.max(6)));
                    }
                }
            }
            for (k, s) in strays.iter().enumerate() {
                if s.remote == Endpoint::new(server_ip, 80) && !returned.contains_key(&(0, 0x80 + k as u8, k as u16)) {
                    missing.push(format!("stranger datagram #{k} to the server never returned"));
                }
            }
            // replies: the k-th datagram read on the socket for client c is answered with replies[k]
            for c in 0..nclients {
                let n_read = got.iter().filter(|r| r.machine == 0 && r.data.first() == Some(&(c as u8))).count();
                for k in 0..n_read.min(replies.len()) {
                    if replies[k] > 0 && !returned.contains_key(&(1 + c, 0x40 | c as u8, k as u16)) && !refused.contains(&(0x40 | c as u8, k as u16)) {
                        missing.push(format!("reply #{k} ({} bytes) to client {c} never returned by its socket", replies[k].max(6)));
                    }
                }
            }
            ensure!(missing.is_empty(), "delivered_when_nothing_lost", "datagram_missing", "no frame was dropped, yet: {}", missing.join("; "));
        }
        let full = plans.iter().any(|p| p.sends.iter().any(|s| s.1 == max_payload));
        let stray_sent = !strays.is_empty();
        let delivered_both_ways = got.iter().any(|r| r.machine == 0) && got.iter().any(|r| r.machine > 0);
        ctx.nontrivial = delivered_both_ways && (dropped + dups > 0 || stray_sent || nclients >= 2);
        if full {
            ctx.class("datagram_fills_the_mtu");
        }
        if !refused.is_empty() {
            ctx.class("oversized_datagram_refused");
        }
        if dropped > 0 {
            ctx.class("ipv4_frame_dropped");
        }
        if dups > 0 {
            ctx.class("ipv4_frame_duplicated");
        }
        if stray_sent {
            ctx.class("stranger_datagrams");
        }
        if strays.iter().any(|s| s.remote.port == 49152 && s.local.port == 80) {
            ctx.class("stranger_uses_server_port_to_client_socket");
        }
        if read_size.is_some() {
            ctx.class("recv_n_on_datagram_socket");
        }
        if accept_delay > 0 {
            ctx.class("late_accept");
        }
        if arp {
            ctx.class("with_arp");
        }
        ctx.measure("datagrams_returned", got.len() as f64);
        Ok(frames)
    }
}

fn gen_len(e: &mut Entropy, max_payload: usize) -> usize {
    match e.weighted(&[3, 3, 3, 1]) {
        0 => 6 + e.choose(60),
        1 => 6 + e.choose(max_payload - 5),
        2 => max_payload - 2 + e.choose(4), // max-2 ..= max+1
        _ => max_payload + 1 + e.choose(3000),
    }
}
