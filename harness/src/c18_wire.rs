//! C18 (wire part): with checksums enabled, every IPv4 header and every UDP and TCP segment the running stack
//! puts on a network verifies under RFC 1071, and the stack's own receivers accept them (the transfers complete).

use crate::c02_dgram::run_dgram;
use crate::c02_sockets::{build_and_run, gen_case, judge};
use crate::codecs::{pseudo_header, rfc1071_verifies, CHECKSUM_BUILD};
use crate::engine::*;
use crate::sim::*;
use crate::{ensure, fail};

pub struct WireChecksums;

/// Verifies one IPv4 packet as it appeared on the wire. Returns (protocol, transport payload length).
pub fn verify_ipv4_packet(b: &[u8]) -> Result<(u8, usize), Failure> {
    ensure!(b.len() >= 20 && b[0] >> 4 == 4, "emitted_ipv4_well_formed", "not_ipv4", "a frame addressed to the IPv4 layer is not an IPv4 packet ({} bytes)", b.len());
    let ihl = (b[0] & 0x0f) as usize * 4;
    let total = u16::from_be_bytes([b[2], b[3]]) as usize;
    ensure!(ihl >= 20 && ihl <= b.len() && total == b.len(), "emitted_ipv4_well_formed", "lengths", "IPv4 packet of {} bytes says header {} total {}", b.len(), ihl, total);
    ensure!(rfc1071_verifies(&[&b[..ihl]]), "emitted_checksum_verifies", "ipv4_header_checksum", "the IPv4 header {:02x?} does not sum to 0xffff", &b[..ihl]);
    let (src, dst) = (u32::from_be_bytes([b[12], b[13], b[14], b[15]]), u32::from_be_bytes([b[16], b[17], b[18], b[19]]));
    let frag = u16::from_be_bytes([b[6], b[7]]) & 0x3fff; // MF or offset
    let seg = &b[ihl..];
    if frag != 0 {
        return Ok((b[9], 0)); // the stack does not fragment on sending; a fragment's transport checksum cannot be judged alone
    }
    match b[9] {
        6 => {
            ensure!(seg.len() >= 20, "emitted_tcp_well_formed", "short", "TCP segment of {} bytes", seg.len());
            let ph = pseudo_header(src, dst, 6, seg.len() as u16);
            ensure!(rfc1071_verifies(&[&ph, seg]), "emitted_checksum_verifies", "tcp_checksum", "TCP segment (seq {}, flags {:#04x}, {} payload bytes, checksum field {:#06x}) does not verify against its pseudo header", u32::from_be_bytes([seg[4], seg[5], seg[6], seg[7]]), seg[13], seg.len() - ((seg[12] >> 4) as usize * 4).min(seg.len()), u16::from_be_bytes([seg[16], seg[17]]));
            Ok((6, seg.len() - ((seg[12] >> 4) as usize * 4).min(seg.len())))
        }
        17 => {
            ensure!(seg.len() >= 8, "emitted_udp_well_formed", "short", "UDP datagram of {} bytes", seg.len());
            let field = u16::from_be_bytes([seg[6], seg[7]]);
            ensure!(field != 0, "emitted_checksum_verifies", "udp_checksum_absent", "a UDP datagram ({} bytes) was emitted with checksum field 0 (= no checksum) in the checksum build", seg.len());
            let ph = pseudo_header(src, dst, 17, seg.len() as u16);
            ensure!(rfc1071_verifies(&[&ph, seg]), "emitted_checksum_verifies", "udp_checksum", "UDP datagram ({} bytes, checksum field {field:#06x}) does not verify against its pseudo header", seg.len());
            Ok((17, seg.len() - 8))
        }
        p => Ok((p, seg.len())),
    }
}

impl Check for WireChecksums {
    fn id(&self) -> &'static str {
        "C18.wire"
    }
    fn rule(&self) -> String {
        "compute_checksum build. generated: the full-stack cases of C02.stream (TCP through sockets: handshake, data segments of all sizes incl. odd lengths, pure ACKs, retransmissions, FIN-less endings; drops, delays, duplicates) in 2/3 and of C02.dgram (UDP through sockets incl. stranger datagrams) in 1/3 of the cases; oracle: every IPv4 frame recorded by the frame hook has a header that sums to 0xffff (RFC 1071, independent implementation), every unfragmented TCP segment and UDP datagram sums to 0xffff together with its pseudo header, no UDP datagram carries the 'no checksum' value 0; and the oracle of the C02 part holds, i.e. the stack's receivers accepted what its senders emitted (all bytes / datagrams delivered). non-trivial: at least one emitted transport payload of odd length and at least 10 IPv4 frames. distinct: hash of decoded case".into()
    }
    fn max_entropy(&self) -> usize {
        500
    }
    fn run(&self, e: &mut Entropy, ctx: &mut Ctx) -> Result<(), Failure> {
        if !CHECKSUM_BUILD {
            fail!("harness", "not_the_checksum_build", "C18.wire must run in the build with --features checksum");
        }
        let stream = e.chance(2, 3);
        let frames: Vec<FrameRec> = if stream {
            let case = gen_case(e, 0);
            let out = build_and_run(&case);
            if ctx.want_desc {
                ctx.desc = Some(serde_json::json!({"mode": "stream", "clients": case.nclients, "mtu": case.mtu, "arp": case.arp, "frames": out.frames.len(), "status": out.status,
                    "client_scripts": case.client_scripts.iter().map(|s| format!("{:?}", s.acts)).collect::<Vec<_>>()}));
            }
            judge(&case, &out, ctx)?;
            out.frames
        } else {
            run_dgram(e, ctx)?
        };
        let mut odd = false;
        let mut n = 0;
        for f in frames.iter().filter(|f| f.proto == Proto::Ipv4) {
            let (p, len) = verify_ipv4_packet(&f.bytes)?;
            n += 1;
            if (p == 6 || p == 17) && len % 2 == 1 {
                odd = true;
            }
        }
        ctx.nontrivial = odd && n >= 10;
        ctx.class(if stream { "tcp_through_sockets" } else { "udp_through_sockets" });
        if odd {
            ctx.class("odd_length_payload_emitted");
        }
        ctx.measure("ipv4_frames_verified", n as f64);
        Ok(())
    }
}
