//! C09: route lookup is longest-prefix match over consistent subnet arithmetic.

use crate::engine::*;
use crate::{ensure, fail};
use elvis_core::ip_table::IpTable;
use elvis_core::protocols::arp::subnetting::{Ipv4Mask, Ipv4Net};
use elvis_core::protocols::ipv4::Ipv4Address;
use serde_json::json;

fn mask_bits(m: u32) -> u32 {
    if m == 0 {
        0
    } else {
        u32::MAX << (32 - m)
    }
}

fn addr(x: u32) -> Ipv4Address {
    Ipv4Address::from(x)
}

fn fmt_ip(x: u32) -> String {
    let b = x.to_be_bytes();
    format!("{}.{}.{}.{}", b[0], b[1], b[2], b[3])
}

/// address generator with nesting: a few anchors, perturbed in low bits
fn gen_addr(e: &mut Entropy, anchors: &[u32]) -> u32 {
    match e.weighted(&[5, 3, 1, 1, 2]) {
        0 => anchors[e.choose(anchors.len())],
        1 => {
            let a = anchors[e.choose(anchors.len())];
            let bit = e.choose(32);
            a ^ (1u32 << bit)
        }
        2 => 0,
        3 => u32::MAX,
        _ => e.u32(),
    }
}

pub struct TableHistories;

impl Check for TableHistories {
    fn id(&self) -> &'static str {
        "C09.table"
    }
    fn rule(&self) -> String {
        "generated: histories of 1..40 operations add/remove/add_direct/remove_direct/add_cidr/remove_cidr/lookup on IpTable<u32> over networks of every mask 0..=32 built around 1..4 anchor addresses (nested chains, siblings, duplicates); lookups at anchors, random addresses and id-1/id/broadcast/broadcast+1 of every inserted net; oracle: naive list model (longest containing mask wins, re-add replaces, return values of add/remove), final iter() equals that of a table built from the same set in a generated permutation and is ordered longest-mask first. non-trivial: some lookup had >= 2 nested nets containing the address, or hit a boundary address of an inserted net, or followed the removal of the net that matched before. distinct: hash of decoded history".into()
    }
    fn max_entropy(&self) -> usize {
        700
    }
    fn run(&self, e: &mut Entropy, ctx: &mut Ctx) -> Result<(), Failure> {
        let nanch = 1 + e.choose(4);
        let anchors: Vec<u32> = (0..nanch).map(|_| e.u32()).collect();
        let mut table: IpTable<u32> = IpTable::new();
        let mut model: Vec<(u32, u32, u32)> = Vec::new(); // (id, masklen, value)
        let mut ever: Vec<(u32, u32)> = Vec::new();
        let mut last_match: std::collections::HashMap<u32, (u32, u32)> = Default::default();
        let mut removed_matchers: Vec<(u32, u32)> = Vec::new();
        let nops = 1 + e.choose(40);
        let mut desc = vec![];
        let mut nested = false;
        let mut boundary = false;
        let mut after_removal = false;
        let mut val = 0u32;
        for step in 0..nops {
            let op = e.weighted(&[6, 3, 2, 1, 2, 1, 8]);
            match op {
                0 | 2 | 4 => {
                    let a = gen_addr(e, &anchors);
                    let m = if op == 2 { 32 } else { e.weighted(&[1; 33]) as u32 };
                    let id = a & mask_bits(m);
                    val += 1;
                    let prev_model = model.iter().position(|x| x.0 == id && x.1 == m).map(|i| model.remove(i).2);
                    model.push((id, m, val));
                    ever.push((id, m));
                    match op {
                        0 => {
                            let prev = table.add(Ipv4Net::new(addr(a), Ipv4Mask::from_bitcount(m)), val);
                            ensure!(prev == prev_model, "model_agreement", "add_return", "step {step}: add({}/{m}) returned {:?}, model {:?}", fmt_ip(a), prev, prev_model);
                        }
                        2 => table.add_direct(addr(a), val),
                        _ => table.add_cidr(&format!("{}/{}", fmt_ip(a), m), val),
                    }
                    desc.push(format!("add{}({}/{m})={val}", ["", "", "_direct", "", "_cidr"][op], fmt_ip(a)));
                }
                1 | 3 | 5 => {
                    // remove something that exists (70%) or a random net
                    let (a, m) = if !model.is_empty() && e.chance(7, 10) {
                        let x = model[e.choose(model.len())];
                        (x.0 | (e.u32() & !mask_bits(x.1)), x.1)
                    } else {
                        (gen_addr(e, &anchors), e.choose(33) as u32)
                    };
                    let m = if op == 3 { 32 } else { m };
                    let id = a & mask_bits(m);
                    let prev_model = model.iter().position(|x| x.0 == id && x.1 == m).map(|i| model.remove(i).2);
                    if prev_model.is_some() {
                        removed_matchers.push((id, m));
                    }
                    match op {
                        1 => {
                            let prev = table.remove(Ipv4Net::new(addr(a), Ipv4Mask::from_bitcount(m)));
                            ensure!(prev == prev_model, "model_agreement", "remove_return", "step {step}: remove({}/{m}) returned {:?}, model {:?}", fmt_ip(a), prev, prev_model);
                        }
                        3 => {
                            let prev = table.remove_direct(addr(a));
                            ensure!(prev == prev_model, "model_agreement", "remove_return", "step {step}: remove_direct({}) returned {:?}, model {:?}", fmt_ip(a), prev, prev_model);
                        }
                        _ => table.remove_cidr(&format!("{}/{}", fmt_ip(a), m)),
                    }
                    desc.push(format!("remove{}({}/{m})", ["", "", "", "_direct", "", "_cidr"][op], fmt_ip(a)));
                }
                _ => {
                    let (x, is_boundary) = if !ever.is_empty() && e.chance(6, 10) {
                        let (id, m) = ever[e.choose(ever.len())];
                        let bc = id | !mask_bits(m);
                        let x = match e.choose(4) {
                            0 => id.wrapping_sub(1),
                            1 => id,
                            2 => bc,
                            _ => bc.wrapping_add(1),
                        };
                        (x, true)
                    } else {
                        (gen_addr(e, &anchors), false)
                    };
                    let containing: Vec<&(u32, u32, u32)> = model.iter().filter(|n| x & mask_bits(n.1) == n.0).collect();
                    let want = containing.iter().max_by_key(|n| n.1).map(|n| (n.2, (n.0, n.1)));
                    let got = table.get_recipient(addr(x));
                    ensure!(got == want.map(|w| w.0), "longest_prefix_match", "lookup", "step {step}: lookup({}) = {:?}, model says {:?} (containing nets: {:?})", fmt_ip(x), got, want, containing);
                    if containing.len() >= 2 {
                        nested = true;
                    }
                    if is_boundary && !model.is_empty() {
                        boundary = true;
                    }
                    if let Some(prev) = last_match.get(&x) {
                        if removed_matchers.contains(prev) && want.map(|w| w.1) != Some(*prev) {
                            after_removal = true;
                        }
                    }
                    if let Some(w) = want {
                        last_match.insert(x, w.1);
                    }
                    desc.push(format!("lookup({})->{:?}", fmt_ip(x), got));
                }
            }
        }
        // order independence and ordering of iter()
        let got: Vec<(u32, u32, u32)> = table.iter().map(|(n, v)| (n.id().to_u32(), n.mask().count_ones(), v)).collect();
        let mut want = model.clone();
        want.sort_by(|a, b| b.1.cmp(&a.1).then(a.0.cmp(&b.0)));
        ensure!(got == want, "iteration_order", "iter", "iter() = {:?}, expected longest-mask-first {:?}", got, want);
        let mut perm = model.clone();
        for i in (1..perm.len()).rev() {
            let j = e.choose(i + 1);
            perm.swap(i, j);
        }
        let mut t2: IpTable<u32> = IpTable::new();
        for (id, m, v) in &perm {
            t2.add(Ipv4Net::new(addr(*id), Ipv4Mask::from_bitcount(*m)), *v);
        }
        if t2 != table {
            fail!("order_independence", "eq", "table built from the same set in another order differs: {:?} vs {:?}", t2, table);
        }
        ctx.nontrivial = nested || boundary || after_removal;
        if nested {
            ctx.class("lookup_with_nested_nets");
        }
        if boundary {
            ctx.class("lookup_at_boundary");
        }
        if after_removal {
            ctx.class("lookup_after_removing_matcher");
        }
        if ctx.want_desc {
            ctx.desc = Some(json!({"anchors": anchors.iter().map(|a| fmt_ip(*a)).collect::<Vec<_>>(), "ops": desc}));
        }
        Ok(())
    }
}

pub struct NetArithmetic;

fn gen_net(e: &mut Entropy) -> (u32, u32) {
    let m = e.choose(33) as u32;
    let a = match e.weighted(&[4, 1, 1, 2]) {
        0 => e.u32(),
        1 => 0,
        2 => u32::MAX,
        _ => {
            // near a power of two boundary
            let s = e.choose(32);
            (1u32 << s).wrapping_add(e.choose(3) as u32).wrapping_sub(1)
        }
    };
    (a, m)
}

impl Check for NetArithmetic {
    fn id(&self) -> &'static str {
        "C09.net"
    }
    fn rule(&self) -> String {
        "generated: per case 2 networks (any address, any mask 0..=32, mass on 0, 255.255.255.255 and powers of two), probe addresses at id-1/id/broadcast/broadcast+1/random, an address range (aligned block, or perturbed start/end/size), a CIDR text and a mask word; oracle: u64/u32 reference arithmetic (contains <=> id<=x<=broadcast, overlaps <=> ranges intersect, TryFrom<range> Ok exactly for aligned power-of-two blocks and then range() round-trips, from_cidr == new, mask conversions for all 33 lengths, non-contiguous words rejected). non-trivial: mask in {0,31,32} or the network touches 0.0.0.0 / 255.255.255.255 or the two nets are nested or the range is a near-miss of an aligned block. distinct: hash of decoded values".into()
    }
    fn max_entropy(&self) -> usize {
        96
    }
    fn run(&self, e: &mut Entropy, ctx: &mut Ctx) -> Result<(), Failure> {
        let (a1, m1) = gen_net(e);
        let (mut a2, m2) = gen_net(e);
        let relate = e.choose(3);
        if relate == 1 {
            // force nesting / adjacency with net 1
            a2 = a1 ^ (e.u32() & !mask_bits(m1.min(m2)));
        } else if relate == 2 {
            a2 = (a1 | !mask_bits(m1)).wrapping_add(1);
        }
        let n1 = Ipv4Net::new(addr(a1), Ipv4Mask::from_bitcount(m1));
        let n2 = Ipv4Net::new(addr(a2), Ipv4Mask::from_bitcount(m2));
        let mut nontrivial = false;
        for (n, a, m) in [(n1, a1, m1), (n2, a2, m2)] {
            let id = a & mask_bits(m);
            let bc = id | !mask_bits(m);
            ensure!(n.id().to_u32() == id, "net_arithmetic", "id", "Ipv4Net::new({}/{m}).id() = {} expected {}", fmt_ip(a), n.id(), fmt_ip(id));
            ensure!(n.broadcast().to_u32() == bc, "net_arithmetic", "broadcast", "({}/{m}).broadcast() = {} expected {}", fmt_ip(a), n.broadcast(), fmt_ip(bc));
            ensure!(n.mask().to_u32() == mask_bits(m) && n.mask().count_ones() == m, "net_arithmetic", "mask", "mask of /{m} wrong");
            ensure!(n.range() == (addr(id)..=addr(bc)), "net_arithmetic", "range", "range() wrong for {}/{m}", fmt_ip(a));
            let s = Ipv4Net::new_short(addr(a), m);
            ensure!(s == n, "net_arithmetic", "new_short", "new_short != new for {}/{m}", fmt_ip(a));
            let probes = [id.wrapping_sub(1), id, bc, bc.wrapping_add(1), e.u32(), id.wrapping_add(e.u32() & !mask_bits(m)), a];
            for x in probes {
                let want = id <= x && x <= bc;
                ensure!(n.contains(addr(x)) == want, "net_arithmetic", "contains", "({}/{m}).contains({}) = {} expected {}", fmt_ip(a), fmt_ip(x), !want, want);
                ctx.sub_evals += 1;
            }
            // CIDR text
            let text = format!("{}/{}", fmt_ip(a), m);
            match Ipv4Net::from_cidr(&text) {
                Ok(p) => ensure!(p == n, "cidr", "from_cidr", "from_cidr({text}) = {:?} expected {:?}", p, n),
                Err(err) => fail!("cidr", "from_cidr_err", "from_cidr({text}) failed: {err}"),
            }
            if m == 0 || m >= 31 || id == 0 || bc == u32::MAX {
                nontrivial = true;
                ctx.class("extreme_mask_or_edge_of_space");
            }
        }
        // overlaps
        let (i1, b1) = (a1 & mask_bits(m1), (a1 & mask_bits(m1)) | !mask_bits(m1));
        let (i2, b2) = (a2 & mask_bits(m2), (a2 & mask_bits(m2)) | !mask_bits(m2));
        let want = i1 <= b2 && i2 <= b1;
        ensure!(n1.overlaps(n2) == want && n2.overlaps(n1) == want, "net_arithmetic", "overlaps", "overlaps({:?},{:?}) = {}/{} expected {}", n1, n2, n1.overlaps(n2), n2.overlaps(n1), want);
        if want && (m1 != m2) {
            nontrivial = true;
            ctx.class("nested_pair");
        }
        if !want && (b1.wrapping_add(1) == i2 || b2.wrapping_add(1) == i1) {
            nontrivial = true;
            ctx.class("adjacent_pair");
        }

        // range -> net
        let size_log = e.choose(33) as u32;
        let size: u64 = 1u64 << size_log;
        let start0 = if size_log == 32 { 0u64 } else { ((e.u32() as u64) >> size_log) << size_log };
        let (start, end): (i128, i128) = match e.weighted(&[4, 2, 2, 2, 1, 1]) {
            0 => (start0 as i128, (start0 + size - 1) as i128),
            1 => (start0 as i128 + 1, (start0 + size) as i128),          // right size, misaligned
            2 => (start0 as i128, (start0 + size) as i128),              // size+1
            3 => (start0 as i128, (start0 + size) as i128 - 2),          // size-1
            4 => ((start0 + size) as i128, start0 as i128 - 1),          // empty (end<start)
            _ => (e.u32() as i128, e.u32() as i128),
        };
        let clampu = |x: i128| x.clamp(0, u32::MAX as i128) as u32;
        let (start, end) = (clampu(start), clampu(end));
        let r = addr(start)..=addr(end);
        let got = Ipv4Net::try_from(r.clone());
        let n = end as i128 - start as i128 + 1;
        let ok = n >= 1 && (n as u64).is_power_of_two() && (start as u64) % (n as u64) == 0;
        match got {
            Ok(net) => {
                ensure!(ok, "range_conversion", "accepts_non_block", "TryFrom({}..={}) accepted a range that is not an aligned power-of-two block: {:?}", fmt_ip(start), fmt_ip(end), net);
                ensure!(net.range() == r, "range_conversion", "roundtrip", "TryFrom({}..={}).range() = {:?}", fmt_ip(start), fmt_ip(end), net.range());
            }
            Err(err) => {
                ensure!(!ok, "range_conversion", "rejects_block", "TryFrom({}..={}) rejected an aligned block: {err}", fmt_ip(start), fmt_ip(end));
                nontrivial = true;
                ctx.class("range_near_miss_rejected");
            }
        }
        // mask conversions
        for m in 0..=32u32 {
            let mk = Ipv4Mask::from_bitcount(m);
            ensure!(mk.to_u32() == mask_bits(m) && mk.count_ones() == m, "mask", "from_bitcount", "from_bitcount({m}) = {:#x}", mk.to_u32());
            match Ipv4Mask::try_from(mask_bits(m)) {
                Ok(x) => ensure!(x == mk, "mask", "try_from", "try_from({:#x}) != from_bitcount({m})", mask_bits(m)),
                Err(_) => fail!("mask", "try_from_rejects", "try_from({:#x}) rejected a contiguous mask", mask_bits(m)),
            }
            match Ipv4Mask::try_from(addr(mask_bits(m))) {
                Ok(x) => ensure!(x == mk, "mask", "try_from_addr", "try_from(address {:#x}) != from_bitcount({m})", mask_bits(m)),
                Err(_) => fail!("mask", "try_from_addr_rejects", "try_from(address) rejected a contiguous mask"),
            }
        }
        let word = match e.choose(3) {
            0 => e.u32(),
            1 => mask_bits(e.choose(33) as u32) ^ (1u32 << e.choose(32)),
            _ => mask_bits(e.choose(33) as u32),
        };
        let contiguous = word.leading_ones() == word.count_ones();
        ensure!(Ipv4Mask::try_from(word).is_ok() == contiguous, "mask", "contiguity", "try_from({word:#x}).is_ok() = {} but contiguous = {}", !contiguous, contiguous);
        ctx.nontrivial = nontrivial;
        if ctx.want_desc {
            ctx.desc = Some(json!({"net1": format!("{}/{}", fmt_ip(a1), m1), "net2": format!("{}/{}", fmt_ip(a2), m2), "range": format!("{}..={}", fmt_ip(start), fmt_ip(end)), "mask_word": format!("{word:#x}")}));
        }
        Ok(())
    }
}
