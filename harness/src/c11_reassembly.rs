//! C11: IPv4 reassembly rebuilds exactly the datagrams that were fragmented.
//! Reference model: RFC 791 buffer semantics (per key: bitmap + data since the last completion).

use crate::c10_fragment::pattern;
use crate::engine::*;
use crate::{ensure, fail};
use elvis_core::protocols::ipv4::fragmentation::{fragment, Fragments};
use elvis_core::protocols::ipv4::ipv4_parsing::{ControlFlags, Ipv4Header, TypeOfService};
use elvis_core::protocols::ipv4::verif::{ReceivePacketResult, Reassembly};
use elvis_core::protocols::ipv4::Ipv4Address;
use elvis_core::Message;
use serde_json::json;
use std::collections::HashMap;

type Key = (u32, u32, u8, u16);

#[derive(Clone)]
struct Frag {
    dgram: usize,
    header: Ipv4Header,
    data: Vec<u8>,
    dup: bool,
    overlap: bool,
}

struct ModelBuf {
    blocks: Vec<bool>,
    data: Vec<u8>,
    tdl: Option<usize>,
    have_first: bool,
    last_arrival: usize,
}

pub struct ReassemblyHistories;

fn ref_fragment(e: &mut Entropy, header: &Ipv4Header, data: &[u8]) -> Vec<(Ipv4Header, Vec<u8>)> {
    // independent fragmenter: pieces of generated sizes (multiples of 8 except the last)
    let mut out = vec![];
    let mut pos = 0usize;
    let total = data.len();
    let max_piece_blocks = 1 + e.choose(1 + (total / 8).min(400));
    while pos < total {
        let blocks = 1 + e.choose(max_piece_blocks);
        let mut end = pos + blocks * 8;
        if end >= total {
            end = total;
        }
        let mut h = *header;
        h.fragment_offset = header.fragment_offset + (pos / 8) as u16;
        h.total_length = 20 + (end - pos) as u16;
        h.flags = ControlFlags::new(true, end == total);
        out.push((h, data[pos..end].to_vec()));
        pos = end;
    }
    out
}

fn real_fragment(e: &mut Entropy, header: &Ipv4Header, data: &[u8], mut mtu: u16) -> Result<Vec<(Ipv4Header, Vec<u8>)>, Failure> {
    let mut cur: Vec<(Ipv4Header, Vec<u8>)> = vec![(*header, data.to_vec())];
    let rounds = 1 + e.choose(3);
    for _ in 0..rounds {
        let mut next = vec![];
        for (h, d) in cur {
            match guard(|| fragment(h, Message::new(d.clone()), mtu))? {
                Fragments::DontFragment((h, m)) => next.push((h, m.to_vec())),
                Fragments::Fragmented(v) => next.extend(v.into_iter().map(|(h, m)| (h, m.to_vec()))),
                Fragments::Discard => fail!("harness", "discard", "unexpected Discard"),
            }
        }
        cur = next;
        if mtu <= 68 {
            break;
        }
        mtu = 68 + e.choose((mtu - 68) as usize) as u16;
    }
    Ok(cur)
}

impl Check for ReassemblyHistories {
    fn id(&self) -> &'static str {
        "C11"
    }
    fn rule(&self) -> String {
        "generated: 1..4 datagrams whose keys differ in exactly one of (source, destination, protocol, identification) or in all, payload 1..20000 (occasionally 65515), each fragmented either by an independent reference fragmenter (unequal piece sizes) or by the real fragmenter through a chain of 1..3 decreasing MTUs >= 68; 0..3 fragments duplicated (optionally re-fragmented again, giving overlapping pieces); a generated arrival permutation interleaving all datagrams; after any Incomplete result the returned (buffer id, epoch) may be fired later as an expiry callback; oracle: RFC 791 reference model per key (bitmap and data since the last completion): Complete exactly on the arrival that completes coverage, with the original header and payload byte for byte, otherwise Incomplete; an expiry discards the buffer iff no fragment of that key arrived since the arrival that armed it (observed through the results of the remaining arrivals). non-trivial: >= 2 datagrams interleaved, or a duplicate arrived, or a timer fired between two fragments of one datagram. distinct: hash of decoded history".into()
    }
    fn assumptions(&self) -> Vec<String> {
        vec!["fragments are those of self-consistent datagrams (ihl 5, offset*8+len <= 65535); hostile fragment headers are C14's domain".into()]
    }
    fn max_entropy(&self) -> usize {
        500
    }
    fn run(&self, e: &mut Entropy, ctx: &mut Ctx) -> Result<(), Failure> {
        let nd = 1 + e.weighted(&[4, 3, 2, 1]);
        // keys
        let base: Key = (e.u32(), e.u32(), *e.pick(&[6u8, 17, 1]), e.u16());
        let vary = e.choose(5);
        let mut dgrams: Vec<(Ipv4Header, Vec<u8>)> = vec![];
        for k in 0..nd {
            let mut key = base;
            let delta = k as u32;
            match vary {
                0 => key.0 = key.0.wrapping_add(delta),
                1 => key.1 = key.1.wrapping_add(delta),
                2 => key.2 = [base.2, 253, 254, 0][k],
                3 => key.3 = key.3.wrapping_add(delta as u16),
                _ => key = (e.u32(), e.u32(), e.u8(), e.u16()),
            }
            let len = match e.weighted(&[3, 4, 2, 1]) {
                0 => 1 + e.choose(64),
                1 => 1 + e.choose(3000),
                2 => 1 + e.choose(20000),
                _ => 65515 - e.choose(9),
            };
            let salt = e.u8();
            let data: Vec<u8> = (0..len).map(|i| pattern(i, salt)).collect();
            let header = Ipv4Header {
                ihl: 5,
                type_of_service: TypeOfService::from(0),
                total_length: 20 + len as u16,
                identification: key.3,
                fragment_offset: 0,
                flags: ControlFlags::new(true, true),
                time_to_live: e.u8(),
                protocol: key.2,
                checksum: 0,
                source: Ipv4Address::from(key.0),
                destination: Ipv4Address::from(key.1),
            };
            dgrams.push((header, data));
        }
        // distinct keys required (vary==4 could collide; make them distinct deterministically)
        for i in 0..dgrams.len() {
            for j in 0..i {
                let (a, b) = (dgrams[i].0, dgrams[j].0);
                if a.source == b.source && a.destination == b.destination && a.protocol == b.protocol && a.identification == b.identification {
                    dgrams[i].0.identification = dgrams[i].0.identification.wrapping_add(1 + i as u16 * 7);
                }
            }
        }
        // fragments
        let mut frags: Vec<Frag> = vec![];
        let mut used_real = false;
        for (k, (h, d)) in dgrams.iter().enumerate() {
            let pieces = if e.bool() {
                ref_fragment(e, h, d)
            } else {
                used_real = true;
                let mtu = (68 + e.choose(((d.len() + 20).min(65535) + 40).saturating_sub(68).max(1))).min(65535) as u16;
                real_fragment(e, h, d, mtu)?
            };
            for (ph, pd) in pieces {
                frags.push(Frag { dgram: k, header: ph, data: pd, dup: false, overlap: false });
            }
        }
        // duplicates
        let ndup = e.weighted(&[4, 3, 2, 1]);
        for _ in 0..ndup {
            let src = frags[e.choose(frags.len())].clone();
            if src.dup {
                continue;
            }
            if e.chance(1, 4) && src.data.len() > 48 {
                // re-fragment the duplicate: overlapping pieces of the same bytes
                let mtu = (68 + e.choose((src.data.len() + 20).saturating_sub(68).max(1))).min(65535) as u16;
                for (ph, pd) in real_fragment(e, &src.header, &src.data, mtu)? {
                    frags.push(Frag { dgram: src.dgram, header: ph, data: pd, dup: true, overlap: true });
                }
            } else {
                frags.push(Frag { dup: true, ..src });
            }
        }
        // arrival order
        let n = frags.len();
        let mut order: Vec<usize> = (0..n).collect();
        match e.choose(4) {
            0 => {}
            1 => order.reverse(),
            _ => {
                for i in (1..n).rev() {
                    let j = e.choose(i + 1);
                    order.swap(i, j);
                }
            }
        }

        // run
        let mut reasm = Reassembly::new();
        let mut model: HashMap<Key, ModelBuf> = HashMap::new();
        // pending timers: (cull closure data, key, arrival index that armed it)
        let mut timers: Vec<(ReceivePacketResult, Key, usize, u64)> = vec![];
        let mut incarnation: HashMap<Key, u64> = HashMap::new();
        let mut stale_on_live_buffer = false;
        let mut events = vec![];
        let mut interleaved = false;
        let mut dup_arrived = false;
        let mut timer_between = false;
        let mut last_dgram: Option<usize> = None;
        let mut completed: Vec<usize> = vec![];
        let mut seen_dgrams = std::collections::HashSet::new();
        for (idx, &fi) in order.iter().enumerate() {
            // maybe fire a timer first. Within one buffer incarnation timers fire in the order in
            // which they were armed (their durations never decrease), so firing one fires the
            // earlier ones of that incarnation first; across incarnations any order is possible.
            while !timers.is_empty() && e.chance(1, 6) {
                let pick = e.choose(timers.len());
                let (pkey, pinc, parm) = (timers[pick].1, timers[pick].3, timers[pick].2);
                let mut batch = vec![];
                let mut i = 0;
                while i < timers.len() {
                    if timers[i].1 == pkey && timers[i].3 == pinc && timers[i].2 <= parm {
                        batch.push(timers.remove(i));
                    } else {
                        i += 1;
                    }
                }
                batch.sort_by_key(|t| t.2);
                for t in batch {
                    if let ReceivePacketResult::Incomplete(_, buf, epoch) = t.0 {
                        guard(|| reasm.maybe_cull_segment(buf, epoch))?;
                        let discard = model.get(&t.1).map(|b| b.last_arrival == t.2).unwrap_or(false);
                        if discard {
                            model.remove(&t.1);
                            *incarnation.entry(t.1).or_insert(0) += 1;
                            timer_between = true;
                            events.push(format!("timer(armed at #{}) fires: buffer discarded", t.2));
                        } else {
                            if model.contains_key(&t.1) {
                                stale_on_live_buffer = true;
                            }
                            events.push(format!("timer(armed at #{}) fires: stale, nothing discarded", t.2));
                        }
                    }
                }
            }
            let f = &frags[fi];
            let h = f.header;
            let key: Key = (h.source.to_u32(), h.destination.to_u32(), h.protocol, h.identification);
            if let Some(l) = last_dgram {
                if l != f.dgram && seen_dgrams.contains(&f.dgram) {
                    interleaved = true;
                }
            }
            seen_dgrams.insert(f.dgram);
            last_dgram = Some(f.dgram);
            if f.dup {
                dup_arrived = true;
            }
            // model
            let whole = h.fragment_offset == 0 && h.flags.is_last_fragment();
            let expect: Option<Vec<u8>> = if whole {
                model.remove(&key);
                *incarnation.entry(key).or_insert(0) += 1;
                Some(f.data.clone())
            } else {
                let b = model.entry(key).or_insert(ModelBuf { blocks: vec![], data: vec![], tdl: None, have_first: false, last_arrival: idx });
                b.last_arrival = idx;
                let off = h.fragment_offset as usize * 8;
                let end = off + f.data.len();
                if b.data.len() < end {
                    b.data.resize(end, 0);
                }
                b.data[off..end].copy_from_slice(&f.data);
                let bend = h.fragment_offset as usize + (f.data.len() + 7) / 8;
                if b.blocks.len() < bend {
                    b.blocks.resize(bend, false);
                }
                for x in h.fragment_offset as usize..bend {
                    b.blocks[x] = true;
                }
                if h.flags.is_last_fragment() {
                    b.tdl = Some(end);
                }
                if h.fragment_offset == 0 {
                    b.have_first = true;
                }
                match b.tdl {
                    Some(tdl) if tdl > 0 && (0..(tdl + 7) / 8).all(|x| b.blocks.get(x).copied().unwrap_or(false)) => {
                        let data = b.data[..tdl].to_vec();
                        model.remove(&key);
                        *incarnation.entry(key).or_insert(0) += 1;
                        Some(data)
                    }
                    _ => None,
                }
            };
            let got = guard(|| reasm.receive_packet(h, Message::new(f.data.clone())))?;
            match (&got, &expect) {
                (ReceivePacketResult::Complete(gh, gm), Some(data)) => {
                    let want_h = dgrams[f.dgram].0;
                    let gv = gm.to_vec();
                    if &gv != data {
                        let first_diff = gv.iter().zip(data.iter()).position(|(a, b)| a != b);
                        fail!("reassembled_payload", if dup_arrived { "payload_with_duplicates" } else { "payload" }, "arrival #{idx} (datagram {}, offset {}): Complete with {} bytes, expected {} bytes; first difference at {:?}; events: {:?}", f.dgram, h.fragment_offset, gv.len(), data.len(), first_diff, events);
                    }
                    let mut w = want_h;
                    w.total_length = 20 + data.len() as u16;
                    ensure!(gh.source == w.source && gh.destination == w.destination && gh.protocol == w.protocol && gh.identification == w.identification && gh.total_length == w.total_length && gh.flags.is_last_fragment() && gh.fragment_offset == 0 && gh.time_to_live == w.time_to_live && gh.type_of_service == w.type_of_service,
                        "reassembled_header", "header", "arrival #{idx}: Complete with header {gh:?}, expected {w:?}");
                    completed.push(f.dgram);
                    events.push(format!("#{idx} d{} off {} len {}{} -> Complete", f.dgram, h.fragment_offset, f.data.len(), if f.dup { " (dup)" } else { "" }));
                }
                (ReceivePacketResult::Incomplete(..), None) => {
                    timers.push((got.clone(), key, idx, *incarnation.get(&key).unwrap_or(&0)));
                    events.push(format!("#{idx} d{} off {} len {}{} -> Incomplete", f.dgram, h.fragment_offset, f.data.len(), if f.dup { " (dup)" } else { "" }));
                }
                (ReceivePacketResult::Complete(_, gm), None) => {
                    fail!("completion_point", "early_complete", "arrival #{idx} (datagram {}, offset {}): Complete ({} bytes) but the pieces received since the last completion do not cover the datagram; events: {:?}", f.dgram, h.fragment_offset, gm.len(), events);
                }
                (ReceivePacketResult::Incomplete(..), Some(data)) => {
                    fail!("completion_point", if timer_between || stale_on_live_buffer { "missing_complete_after_timer" } else { "missing_complete" }, "arrival #{idx} (datagram {}, offset {}): Incomplete but coverage is complete ({} bytes expected); events: {:?}", f.dgram, h.fragment_offset, data.len(), events);
                }
            }
        }
        ctx.nontrivial = interleaved || dup_arrived || timer_between;
        if interleaved {
            ctx.class("interleaved_datagrams");
        }
        if dup_arrived {
            ctx.class("duplicate_arrived");
        }
        if frags.iter().any(|f| f.overlap) {
            ctx.class("overlap_from_refragmented_duplicate");
        }
        if timer_between {
            ctx.class("timer_discarded_buffer");
        }
        if stale_on_live_buffer {
            ctx.class("stale_timer_fired_on_live_buffer");
        }
        if used_real {
            ctx.class("real_fragmenter_chain");
        }
        ctx.measure("max_fragments", n as f64);
        if ctx.want_desc {
            ctx.desc = Some(json!({"datagrams": dgrams.iter().map(|(h, d)| json!({"src": h.source.to_string(), "dst": h.destination.to_string(), "proto": h.protocol, "id": h.identification, "len": d.len()})).collect::<Vec<_>>(), "events": events, "completed": completed}));
        }
        Ok(())
    }
}
