//! Simulation bench: virtual-time runtime, frame log / fault plan hook, recorder applications.

use crate::engine::*;
use async_trait::async_trait;
use elvis_core::machine::Machine;
use elvis_core::message::Message;
use elvis_core::network::verif::{Frame, FrameHook, Verdict};
use elvis_core::network::Mac;
use elvis_core::protocol::{DemuxError, StartError};
use elvis_core::protocols::ipv4::ipv4_parsing::Ipv4Header;
use elvis_core::protocols::pci;
use elvis_core::protocols::udp::UdpHeader;
use elvis_core::protocols::{Arp, Endpoint, Endpoints, Ipv4};
use elvis_core::{Control, Protocol, Session, Shutdown};
use std::any::TypeId;
use std::future::Future;
use std::sync::{Arc, Mutex};
use std::time::Duration;
use tokio::sync::Barrier;
use tokio::time::Instant;

/// Runs a future on a fresh current-thread runtime with paused (virtual) time. Everything spawned
/// inside is dropped with the runtime, so nothing outlives the case. Panics in spawned tasks are
/// recorded by the harness panic hook; they are returned alongside the output.
pub fn run_virtual<F: Future>(f: F) -> (Option<F::Output>, Vec<PanicInfo>) {
    let _ = take_local_panics();
    let rt = tokio::runtime::Builder::new_current_thread().enable_time().start_paused(true).build().expect("runtime");
    // run_internet itself panics when a protocol's start task panicked and its join result is seen first
    let out = std::panic::catch_unwind(std::panic::AssertUnwindSafe(|| rt.block_on(f))).ok();
    drop(rt);
    (out, take_local_panics())
}

#[derive(Debug, Clone, Copy, PartialEq, Eq)]
pub enum Proto {
    Arp,
    Ipv4,
    Other,
}

#[derive(Debug, Clone)]
pub struct FrameRec {
    pub order: u64,
    pub t: Duration,
    pub net: u64,
    pub seq: u64,
    pub copy_of: Option<u64>,
    pub sender: Mac,
    pub dest: Option<Mac>,
    pub proto: Proto,
    pub proto_id: TypeId,
    pub bytes: Vec<u8>,
    pub dropped: bool,
    pub extra_delay: Duration,
    pub copies: usize,
    pub deliveries: Vec<(Mac, Duration)>,
    pub undeliverable: bool,
}

#[derive(Debug, Clone, Default)]
pub struct Decision {
    pub drop: bool,
    pub delay_ms: u64,
    pub copies: Vec<u64>, // delays of extra copies in ms
}

pub type Planner = Box<dyn Fn(&FrameRec, &[FrameRec]) -> Decision + Send + Sync>;

/// Frame log and deterministic fault plan.
pub struct Wire {
    /// logical clock shared by frame events and harness stamps (orders events of one virtual instant)
    pub counter: std::sync::atomic::AtomicU64,
    pub start: Mutex<Option<Instant>>,
    pub frames: Mutex<Vec<FrameRec>>,
    pub planner: Mutex<Option<Planner>>,
}

impl Wire {
    pub fn new() -> Arc<Wire> {
        Arc::new(Wire { counter: std::sync::atomic::AtomicU64::new(1), start: Mutex::new(None), frames: Mutex::new(vec![]), planner: Mutex::new(None) })
    }
    pub fn set_planner(&self, p: Planner) {
        *self.planner.lock().unwrap() = Some(p);
    }
    pub fn now(&self) -> Duration {
        let mut s = self.start.lock().unwrap();
        let now = Instant::now();
        match *s {
            Some(t0) => now.duration_since(t0),
            None => {
                *s = Some(now);
                Duration::ZERO
            }
        }
    }
    pub fn tick(&self) -> u64 {
        self.counter.fetch_add(1, std::sync::atomic::Ordering::SeqCst)
    }
    pub fn mark_start(&self) {
        let _ = self.now();
    }
    pub fn snapshot(&self) -> Vec<FrameRec> {
        self.frames.lock().unwrap().clone()
    }
}

impl FrameHook for Wire {
    fn on_send(&self, f: &Frame) -> Verdict {
        let proto = if f.protocol == TypeId::of::<Arp>() {
            Proto::Arp
        } else if f.protocol == TypeId::of::<Ipv4>() {
            Proto::Ipv4
        } else {
            Proto::Other
        };
        let mut rec = FrameRec {
            order: self.tick(),
            t: self.now(),
            net: f.net,
            seq: f.seq,
            copy_of: f.copy_of,
            sender: f.sender,
            dest: f.destination,
            proto,
            proto_id: f.protocol,
            bytes: f.message.to_vec(),
            dropped: false,
            extra_delay: Duration::ZERO,
            copies: 0,
            deliveries: vec![],
            undeliverable: false,
        };
        let mut frames = self.frames.lock().unwrap();
        let d = match &*self.planner.lock().unwrap() {
            Some(p) => p(&rec, &frames),
            None => Decision::default(),
        };
        rec.dropped = d.drop;
        rec.extra_delay = Duration::from_millis(d.delay_ms);
        rec.copies = d.copies.len();
        frames.push(rec);
        if d.drop {
            Verdict::Drop
        } else {
            Verdict::Deliver { extra_delay: Duration::from_millis(d.delay_ms), copy_delays: d.copies.iter().map(|m| Duration::from_millis(*m)).collect() }
        }
    }
    fn on_deliver(&self, f: &Frame, tap: Mac) {
        let t = self.now();
        let mut frames = self.frames.lock().unwrap();
        if let Some(r) = frames.iter_mut().rev().find(|r| r.seq == f.seq) {
            r.deliveries.push((tap, t));
        } else {
            // a duplicate created by the hook: log it as its own record
            frames.push(FrameRec {
                order: self.tick(),
                t,
                net: f.net,
                seq: f.seq,
                copy_of: f.copy_of,
                sender: f.sender,
                dest: f.destination,
                proto: Proto::Other,
                proto_id: f.protocol,
                bytes: f.message.to_vec(),
                dropped: false,
                extra_delay: Duration::ZERO,
                copies: 0,
                deliveries: vec![(tap, t)],
                undeliverable: false,
            });
        }
    }
    fn on_undeliverable(&self, f: &Frame) {
        let mut frames = self.frames.lock().unwrap();
        if let Some(r) = frames.iter_mut().rev().find(|r| r.seq == f.seq) {
            r.undeliverable = true;
        }
    }
}

// ------------------------------------------------------------------------------------------------
// Recorder application: several distinct TypeIds per machine through the const parameter.

#[derive(Debug, Clone)]
pub struct DemuxRec {
    pub order: u64,
    pub t: Duration,
    pub machine: usize,
    pub app: usize,
    pub payload: Vec<u8>,
    pub pci: Option<pci::DemuxInfo>,
    pub ipv4: Option<Ipv4Header>,
    pub udp: Option<UdpHeader>,
    pub endpoints: Option<Endpoints>,
}

pub type DemuxLog = Arc<Mutex<Vec<DemuxRec>>>;

/// What a recorder does in `start` before the barrier: (endpoint to bind over UDP) list; results are logged.
pub struct Recorder<const N: usize> {
    pub machine: usize,
    pub wire: Arc<Wire>,
    pub log: DemuxLog,
    pub binds: Vec<Endpoint>,
    pub bind_results: Arc<Mutex<Vec<(usize, usize, Endpoint, bool)>>>,
    /// binds performed while the simulation runs: (time after the barrier, endpoint); results with the time they were made
    pub late_binds: Vec<(Duration, Endpoint)>,
    pub late_results: LateBindLog,
}

pub type LateBindLog = Arc<Mutex<Vec<(usize, usize, Endpoint, bool, Duration)>>>;

#[async_trait]
impl<const N: usize> Protocol for Recorder<N> {
    async fn start(&self, _shutdown: Shutdown, initialized: Arc<Barrier>, machine: Arc<Machine>) -> Result<(), StartError> {
        if let Some(udp) = machine.protocol::<elvis_core::protocols::Udp>() {
            for ep in &self.binds {
                let r = udp.listen(self.id(), *ep, machine.clone());
                self.bind_results.lock().unwrap().push((self.machine, N, *ep, r.is_ok()));
            }
        }
        initialized.wait().await;
        if !self.late_binds.is_empty() {
            self.wire.mark_start();
            let t0 = Instant::now();
            let (mut late, results, wire, me, id) = (self.late_binds.clone(), self.late_results.clone(), self.wire.clone(), self.machine, self.id());
            late.sort_by_key(|l| l.0);
            tokio::spawn(async move {
                for (at, ep) in late {
                    tokio::time::sleep_until(t0 + at).await;
                    if let Some(udp) = machine.protocol::<elvis_core::protocols::Udp>() {
                        let r = udp.listen(id, ep, machine.clone());
                        results.lock().unwrap().push((me, N, ep, r.is_ok(), wire.now()));
                    }
                }
            });
        }
        Ok(())
    }

    fn demux(&self, message: Message, _caller: Arc<dyn Session>, control: Control, _machine: Arc<Machine>) -> Result<(), DemuxError> {
        self.log.lock().unwrap().push(DemuxRec {
            order: self.wire.tick(),
            t: self.wire.now(),
            machine: self.machine,
            app: N,
            payload: message.to_vec(),
            pci: control.get::<pci::DemuxInfo>().copied(),
            ipv4: control.get::<Ipv4Header>().copied(),
            udp: control.get::<UdpHeader>().copied(),
            endpoints: control.get::<Endpoints>().copied(),
        });
        Ok(())
    }
}

/// helper to add the N-th recorder to a machine
pub fn with_recorder(m: Machine, n: usize, machine: usize, wire: &Arc<Wire>, log: &DemuxLog, binds: Vec<Endpoint>, results: &Arc<Mutex<Vec<(usize, usize, Endpoint, bool)>>>) -> Machine {
    with_recorder_late(m, n, machine, wire, log, binds, results, vec![], &Default::default())
}

/// like with_recorder, with binds that are made while the simulation runs
#[allow(clippy::too_many_arguments)]
pub fn with_recorder_late(m: Machine, n: usize, machine: usize, wire: &Arc<Wire>, log: &DemuxLog, binds: Vec<Endpoint>, results: &Arc<Mutex<Vec<(usize, usize, Endpoint, bool)>>>, late_binds: Vec<(Duration, Endpoint)>, late_results: &LateBindLog) -> Machine {
    macro_rules! mk {
        ($k:literal) => {
            m.with(Recorder::<$k> { machine, wire: wire.clone(), log: log.clone(), binds, bind_results: results.clone(), late_binds, late_results: late_results.clone() })
        };
    }
    match n {
        0 => mk!(0),
        1 => mk!(1),
        2 => mk!(2),
        3 => mk!(3),
        _ => mk!(4),
    }
}

pub fn recorder_type_id(n: usize) -> TypeId {
    match n {
        0 => TypeId::of::<Recorder<0>>(),
        1 => TypeId::of::<Recorder<1>>(),
        2 => TypeId::of::<Recorder<2>>(),
        3 => TypeId::of::<Recorder<3>>(),
        _ => TypeId::of::<Recorder<4>>(),
    }
}

pub fn panics_to_failure(ps: &[PanicInfo]) -> Result<(), Failure> {
    if ps.is_empty() {
        Ok(())
    } else {
        let mut f = panic_failure(ps);
        f.oracle = "no_panic_in_simulation".into();
        Err(f)
    }
}

/// Breaks the reference cycles of a finished simulation when dropped (machine -> tap -> machine, network <-> tap;
/// elvis-core never frees a machine that was started). Without this a long campaign runs out of memory.
pub struct ReleaseOnDrop(pub Vec<Arc<Machine>>);

impl Drop for ReleaseOnDrop {
    fn drop(&mut self) {
        for m in &self.0 {
            if let Some(pci) = m.protocol::<pci::Pci>() {
                pci.verif_release();
            }
        }
    }
}
