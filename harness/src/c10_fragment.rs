//! C10: IPv4 fragmentation produces a faithful partition of the datagram.

use crate::engine::*;
use crate::{ensure, fail};
use elvis_core::protocols::ipv4::fragmentation::{fragment, Fragments};
use elvis_core::protocols::ipv4::ipv4_parsing::{ControlFlags, Ipv4Header, TypeOfService};
use elvis_core::protocols::ipv4::Ipv4Address;
use elvis_core::Message;
use serde_json::json;

pub fn pattern(i: usize, salt: u8) -> u8 {
    ((i as u32).wrapping_mul(2654435761) >> 13) as u8 ^ salt ^ (i as u8)
}

pub fn gen_header(e: &mut Entropy, payload_len: u16, offset: u16, df: bool, mf: bool) -> Ipv4Header {
    Ipv4Header {
        ihl: 5,
        type_of_service: TypeOfService::from(e.u8() & 0b1111_1100),
        total_length: 20 + payload_len,
        identification: e.u16(),
        fragment_offset: offset,
        flags: ControlFlags::new(!df, !mf),
        time_to_live: e.u8(),
        protocol: *e.pick(&[6u8, 17, 1, 253, 0, 255]),
        checksum: 0,
        source: Ipv4Address::from(e.u32()),
        destination: Ipv4Address::from(e.u32()),
    }
}

fn same_but(a: &Ipv4Header, b: &Ipv4Header) -> bool {
    // everything except total_length, fragment_offset, MF
    a.ihl == b.ihl
        && a.type_of_service == b.type_of_service
        && a.identification == b.identification
        && a.flags.may_fragment() == b.flags.may_fragment()
        && a.time_to_live == b.time_to_live
        && a.protocol == b.protocol
        && a.checksum == b.checksum
        && a.source == b.source
        && a.destination == b.destination
}

/// validity of a fragment list relative to the original datagram and an MTU
pub fn check_partition(orig: &Ipv4Header, body: &[u8], frags: &[(Ipv4Header, Message)], mtu: u16, what: &str) -> Result<(), Failure> {
    ensure!(!frags.is_empty(), "partition", "empty", "{what}: no fragments");
    let mut off = orig.fragment_offset as u32;
    let mut data: Vec<u8> = Vec::with_capacity(body.len());
    for (i, (h, m)) in frags.iter().enumerate() {
        let last = i + 1 == frags.len();
        let len = m.len();
        ensure!(h.total_length as usize == 20 + len, "partition", "total_length", "{what}: fragment {i}: total_length {} but payload {} bytes", h.total_length, len);
        ensure!(h.total_length <= mtu, "partition", "exceeds_mtu", "{what}: fragment {i}: total_length {} > mtu {}", h.total_length, mtu);
        ensure!(h.fragment_offset as u32 == off, "partition", "offset", "{what}: fragment {i}: offset {} expected {}", h.fragment_offset, off);
        if !last {
            ensure!(len % 8 == 0 && len > 0, "partition", "alignment", "{what}: non-final fragment {i} has payload length {len}");
            ensure!(!h.flags.is_last_fragment(), "partition", "mf_missing", "{what}: non-final fragment {i} has MF clear");
        } else {
            ensure!(h.flags.is_last_fragment() == orig.flags.is_last_fragment(), "partition", "mf_last", "{what}: final fragment MF={} but original MF={}", !h.flags.is_last_fragment(), !orig.flags.is_last_fragment());
        }
        ensure!(same_but(h, orig), "partition", "fields", "{what}: fragment {i} changed another header field: {:?} vs {:?}", h, orig);
        data.extend(m.iter());
        off += (len / 8) as u32;
    }
    ensure!(data == body, "partition", "payload", "{what}: concatenated payloads differ from the original ({} vs {} bytes)", data.len(), body.len());
    Ok(())
}

pub struct Fragmentation;

impl Check for Fragmentation {
    fn id(&self) -> &'static str {
        "C10"
    }
    fn rule(&self) -> String {
        "generated: payload 0..=65515 (mass on small, near multiples of the block size, and maximal), MTU 68..=65535 (mass near 68, on MTU-20 not divisible by 8, and just below/at/above total length), arbitrary TOS/id/TTL/protocol/addresses, DF set or clear, MF set or clear with a non-zero starting offset, then a chain of 0..3 further strictly smaller MTUs applied to every fragment; oracle: DontFragment iff total_length<=mtu (returned unchanged), Discard iff too big and DF, otherwise validity predicate (each fragment fits, offsets consecutive in 8-byte units from the original offset, non-final payloads are non-empty multiples of 8, payloads concatenate to the original bytes, MF on all but the piece ending the original which keeps the original MF, all other fields equal); the flattened result of the chain satisfies the same predicate for the smallest MTU. non-trivial: >= 2 fragments or Discard. distinct: hash of decoded case".into()
    }
    fn assumptions(&self) -> Vec<String> {
        vec!["input datagrams are self-consistent: ihl=5, total_length = 20 + payload length, offset*8 + payload <= 65535, a datagram with MF set has a payload that is a multiple of 8 (it is itself a non-final fragment)".into()]
    }
    fn max_entropy(&self) -> usize {
        64
    }
    fn run(&self, e: &mut Entropy, ctx: &mut Ctx) -> Result<(), Failure> {
        let mf = e.chance(1, 4);
        let mut offset: u16 = if mf || e.chance(1, 5) { e.choose(2000) as u16 } else { 0 };
        let mut len: usize = match e.weighted(&[3, 3, 2, 2, 1]) {
            0 => e.choose(100),
            1 => 100 + e.choose(3000),
            2 => 8 * (1 + e.choose(1000)) + e.choose(3) - 1,
            3 => 3000 + e.choose(62516),
            _ => 65515 - e.choose(3),
        };
        len = len.min(65515);
        if mf {
            len -= len % 8;
        }
        if offset as usize * 8 + len > 65535 {
            offset = 0;
        }
        let df = e.chance(1, 6);
        let total = 20 + len;
        let mtu: u16 = match e.weighted(&[3, 2, 3, 2, 1]) {
            0 => 68 + e.choose(40) as u16,
            1 => (68 + e.choose(2000)) as u16,
            2 => (total as i64 + e.choose(5) as i64 - 2).clamp(68, 65535) as u16,
            3 => (68 + e.choose(65468)) as u16,
            _ => 65535,
        };
        let header = gen_header(e, len as u16, offset, df, mf);
        let salt = e.u8();
        let bytes: Vec<u8> = (0..len).map(|i| pattern(i, salt)).collect();
        let body = Message::new(bytes.clone());
        let res = guard(|| fragment(header, body.clone(), mtu))?;
        let mut nfrag = 1;
        let mut frags: Vec<(Ipv4Header, Message)> = match res {
            Fragments::DontFragment((h, m)) => {
                ensure!(total <= mtu as usize, "classification", "dontfragment_but_too_big", "DontFragment although total_length {total} > mtu {mtu}");
                ensure!(h == header && m.to_vec() == bytes, "classification", "dontfragment_changed", "DontFragment changed the datagram");
                ctx.class("fits");
                vec![(h, m)]
            }
            Fragments::Discard => {
                ensure!(total > mtu as usize && df, "classification", "discard_wrong", "Discard although total {total}, mtu {mtu}, DF {df}");
                ctx.class("discard");
                ctx.nontrivial = true;
                vec![]
            }
            Fragments::Fragmented(v) => {
                ensure!(total > mtu as usize && !df, "classification", "fragmented_wrong", "Fragmented although total {total}, mtu {mtu}, DF {df}");
                check_partition(&header, &bytes, &v, mtu, "first fragmentation")?;
                ensure!(v.len() >= 2, "partition", "single_fragment", "Fragmented with {} fragment(s) for total {total} mtu {mtu}", v.len());
                nfrag = v.len();
                ctx.class("fragmented");
                ctx.nontrivial = true;
                if (mtu - 20) % 8 != 0 {
                    ctx.class("mtu_minus_20_not_multiple_of_8");
                }
                v
            }
        };
        // chain of decreasing MTUs
        let nchain = if frags.is_empty() { 0 } else { e.choose(4) };
        let mut cur_mtu = mtu;
        let mut chain = vec![mtu];
        for _ in 0..nchain {
            if cur_mtu <= 68 {
                break;
            }
            let next = 68 + e.choose((cur_mtu - 68) as usize) as u16;
            cur_mtu = next;
            chain.push(next);
            let mut flat = Vec::new();
            let mut discarded = false;
            for (h, m) in frags.into_iter() {
                let mb = m.to_vec();
                match guard(|| fragment(h, m.clone(), next))? {
                    Fragments::DontFragment(f) => {
                        ensure!(h.total_length <= next, "classification", "dontfragment_but_too_big", "chain: DontFragment although {} > {next}", h.total_length);
                        flat.push(f)
                    }
                    Fragments::Discard => {
                        ensure!(df && h.total_length > next, "classification", "discard_wrong", "chain: Discard of a fragment with DF clear or that fits (total {} mtu {next})", h.total_length);
                        discarded = true;
                    }
                    Fragments::Fragmented(v) => {
                        check_partition(&h, &mb, &v, next, "re-fragmentation of one fragment")?;
                        flat.extend(v)
                    }
                }
            }
            frags = flat;
            if discarded {
                ctx.class("discard_in_chain");
                ctx.nontrivial = true;
                break;
            }
            check_partition(&header, &bytes, &frags, next, "flattened chain")?;
            ctx.class("refragmented");
        }
        if mf || offset != 0 {
            ctx.class("original_is_itself_a_fragment");
        }
        ctx.measure("max_fragments", frags.len() as f64);
        if ctx.want_desc {
            ctx.desc = Some(json!({"payload_len": len, "offset": offset, "df": df, "mf": mf, "mtu_chain": chain, "fragments_after_first": nfrag, "fragments_final": frags.len()}));
        }
        Ok(())
    }
}
