//! C01, C03, C12 (lock-step), C17 on the TCB bench.

use crate::engine::*;
use crate::tcb_bench::*;
use crate::{ensure, fail};
use elvis_core::protocols::tcp::verif::State;
use serde_json::json;

fn describe(w: &World, ops: &[Op], mtu: u16, iss: [u32; 2], simultaneous: bool) -> serde_json::Value {
    json!({
        "mtu": mtu, "iss": iss, "simultaneous_open": simultaneous,
        "ops": ops.iter().map(|o| format!("{o:?}")).collect::<Vec<_>>(),
        "written": [w.sides[0].written, w.sides[1].written],
        "read": [w.sides[0].read, w.sides[1].read],
        "final_states": [format!("{:?}", w.state(0)), format!("{:?}", w.state(1))],
        "fair_rounds_used": w.stats.fair_rounds_used,
        "last_trace_events": w.trace.iter().rev().take(std::env::var("VERIF_TRACE_EVENTS").ok().and_then(|v| v.parse().ok()).unwrap_or(80)).rev().collect::<Vec<_>>(),
    })
}

fn fair_bound(w: &World) -> u32 {
    let outstanding = (w.sides[0].written - w.sides[1].read.min(w.sides[0].written)) + (w.sides[1].written - w.sides[0].read.min(w.sides[1].written));
    40 + 4 * ((outstanding + 999) / 1000) as u32
}

fn convergence_failure(w: &World, what: &str, k: u32) -> Failure {
    let d = |s: usize| match w.snap(s) {
        Some(sn) => format!("{:?} una+{} nxt+{} wnd {} unsent {} rtx {} ({} B) rcv.nxt+{} unread {} ooo {}", sn.state, sn.snd_una.wrapping_sub(sn.iss), sn.snd_nxt.wrapping_sub(sn.iss), sn.snd_wnd, sn.unsent_text, sn.retransmit_segments, sn.retransmit_bytes, sn.rcv_nxt.wrapping_sub(sn.irs), sn.incoming_text, sn.unprocessed_segments),
        None => format!("released ({:?})", w.sides[s].released_by),
    };
    Failure::new(
        "convergence",
        what,
        format!("after {k} fair rounds (no loss): side 0 wrote {} / peer read {}; side 1 wrote {} / peer read {}; side 0: {}; side 1: {}; wire {}+{}", w.sides[0].written, w.sides[1].read, w.sides[1].written, w.sides[0].read, d(0), d(1), w.wire[0].len(), w.wire[1].len()),
    )
}

// ------------------------------------------------------------------------------------------------

pub struct ReliableStream;

impl Check for ReliableStream {
    fn id(&self) -> &'static str {
        "C01"
    }
    fn rule(&self) -> String {
        "generated: MTU 100..=65535, ISNs over the whole range (30% within 70000 of 0 / 2^31 / 2^32), active/passive or simultaneous open, 5..150 operations {write(side, n in 0 / 1..50 / ..4000 / ..70000 / 60000..140000), read, pump segments(), deliver the i-th in-flight segment (any i), drop it, duplicate it, tick 1 ms..5 s}; bytes are position coded. oracle after every step: bytes read on each side are a prefix of what the peer wrote, no TCB call panics, new data stays inside the advertised window, no state change outside RFC 9293 Figure 5, RCV.NXT never beyond what the peer sent; then a fair phase (no loss, in-order delivery, 5 s ticks) must reach within K = 40 + 4*ceil(outstanding/1000) rounds: everything delivered exactly once, retransmission queues and unsent text empty, two further tick+pump rounds silent. non-trivial: a data-bearing segment was dropped, duplicated or overtaken AND at least one byte was delivered in every direction that wrote. distinct: hash of decoded schedule".into()
    }
    fn assumptions(&self) -> Vec<String> {
        vec![
            "the passive side's application writes only once its connection is ESTABLISHED (it has no session handle before), the active side from creation".into(),
            "'eventually' is decided as 'within K fair rounds'; the measured maximum of rounds used is reported under measures".into(),
        ]
    }
    fn max_entropy(&self) -> usize {
        900
    }
    fn run(&self, e: &mut Entropy, ctx: &mut Ctx) -> Result<(), Failure> {
        let mtu = gen_mtu(e);
        let iss = [gen_iss(e), gen_iss(e)];
        let simultaneous = e.chance(1, 5);
        let salts = [e.u8(), e.u8()];
        let mut w = World::new(mtu, iss, simultaneous, salts)?;
        w.record_trace = ctx.want_desc;
        let cfg = GenCfg { closes: false, old_syn: false, inject: false, max_ops: 150, byte_budget: 400_000, exclude_close_with_unsent: true, legacy_layout: ctx.legacy_layout };
        let nops = 5 + e.choose(cfg.max_ops - 4);
        let mut left = cfg.byte_budget;
        let mut excluded = 0;
        let mut ops = vec![];
        for _ in 0..nops {
            let op = gen_op(e, &w, &cfg, &mut left, &mut excluded);
            let r = w.apply(&op);
            ops.push(op);
            if let Err(f) = r {
                if ctx.want_desc {
                    ctx.desc = Some(describe(&w, &ops, mtu, iss, simultaneous));
                }
                return Err(f);
            }
            for s in 0..2 {
                if w.sides[s].done {
                    if ctx.want_desc {
                        ctx.desc = Some(describe(&w, &ops, mtu, iss, simultaneous));
                    }
                    fail!("no_spurious_release", "released_without_close", "step {}: side {s} was released ({:?}) although nobody closed and no segment was forged", w.step, w.sides[s].released_by);
                }
            }
        }
        let fine = e.chance(2, 5);
        let (tick, mult) = if fine { (50, 30) } else { (5000, 1) };
        let k = fair_bound(&w) * mult;
        w.stats.fair_rounds_bound = k;
        let r = w.fair_phase(k, false, tick);
        if ctx.want_desc {
            ctx.desc = Some(describe(&w, &ops, mtu, iss, simultaneous));
        }
        match r? {
            Some(rounds) => {
                ctx.measure(if fine { "max_fair_rounds_used_50ms_ticks" } else { "max_fair_rounds_used_5s_ticks" }, rounds as f64);
                ctx.measure("max_fair_rounds_used_over_bound", rounds as f64 / k as f64);
                if fine {
                    ctx.class("fair_phase_with_50ms_ticks");
                }
            }
            None => return Err(convergence_failure(&w, "not_quiescent_within_bound", k)),
        }
        for s in 0..2 {
            ensure!(w.sides[s].read == w.sides[1 - s].written, "exactly_once", "delivered_ne_submitted", "side {s} read {} bytes, peer wrote {}", w.sides[s].read, w.sides[1 - s].written);
            ensure!(!w.sides[s].done, "no_spurious_release", "released_without_close", "side {s} was released in the fair phase ({:?})", w.sides[s].released_by);
        }
        ensure!(!w.stats.rst_emitted_in_fair, "no_reset", "rst_in_fair_phase", "a RST was emitted in the fair phase");
        let fault = w.stats.data_dropped || w.stats.data_duplicated || w.stats.data_overtaken;
        let delivered = (0..2).all(|s| w.sides[s].written == 0 || w.sides[1 - s].read > 0) && (w.sides[0].written + w.sides[1].written > 0);
        ctx.nontrivial = fault && delivered;
        if w.stats.data_dropped {
            ctx.class("data_segment_dropped");
        }
        if w.stats.data_duplicated {
            ctx.class("data_segment_duplicated");
        }
        if w.stats.data_overtaken {
            ctx.class("data_segment_overtaken");
        }
        if w.stats.ctl_fault {
            ctx.class("fault_on_control_segment");
        }
        if simultaneous {
            ctx.class("simultaneous_open");
        }
        if w.sides[0].written > 65535 || w.sides[1].written > 65535 {
            ctx.class("more_than_one_window_written");
        }
        if w.sides[0].written > 0 && w.sides[1].written > 0 {
            ctx.class("both_directions");
        }
        if (0..2).any(|s| iss[s].checked_add(w.sides[s].written as u32 + 2).is_none()) {
            ctx.class("sequence_space_wraps");
        }
        Ok(())
    }
}

// ------------------------------------------------------------------------------------------------

pub struct OpenClose;

impl Check for OpenClose {
    fn id(&self) -> &'static str {
        "C03"
    }
    fn rule(&self) -> String {
        "generated: C01's alphabet plus close(side) at any point and an old duplicate SYN (sequence number 1..100000 before the real ISS, same ports) put on the wire at any point; in 3/8 of the cases a legitimate prelude first drives the connection to ESTABLISHED, FIN-WAIT-1, FIN-WAIT-2/CLOSE-WAIT, CLOSING, LAST-ACK or TIME-WAIT so that closes, faults and old duplicates meet the late states often (classes close_in_<STATE> count where close() was called); after the generated operations a fair phase drains the connection, then each side that has not closed yet closes with probability 3/4, then a second fair phase. oracles: (1) every observed state change is a CLOSE edge for close(), a path of at most 2 receive edges of RFC 9293 Figure 5 per processed segment for segment_arrives, TIME-WAIT expiry for advance_time, never for segments(); (2) whenever a side is synchronised IRS equals the peer's ISS and RCV.NXT lies in [IRS+1, peer SND.NXT]; (3) at the end (after a final drain, reads may have been arbitrarily late) every byte a side wrote before closing has been read by the peer; (4) if both sides closed, both TCBs are released within the bound, by the final ACK or the 2*MSL wait, and no RST is emitted in the fair phases unless an old duplicate SYN was in play. non-trivial: both sides reached ESTABLISHED, at least one close was accepted, and (a fault hit a SYN/FIN/pure-ACK segment, or data was in flight at close time, or both sides closed). distinct: hash of decoded schedule".into()
    }
    fn assumptions(&self) -> Vec<String> {
        vec![
            "close() is not issued while written text is still unsegmentised (open known finding close_with_unsegmentized_text; counted under excluded_by_construction, covered by its witness)".into(),
            "a released passive endpoint that never reached ESTABLISHED is LISTEN again; any other released endpoint answers as CLOSED".into(),
        ]
    }
    fn max_entropy(&self) -> usize {
        900
    }
    fn run(&self, e: &mut Entropy, ctx: &mut Ctx) -> Result<(), Failure> {
        let mtu = gen_mtu(e);
        let iss = [gen_iss(e), gen_iss(e)];
        let simultaneous = e.chance(1, 4);
        let salts = [e.u8(), e.u8()];
        let mut w = World::new(mtu, iss, simultaneous, salts)?;
        w.record_trace = ctx.want_desc;
        // the exclusion is lifted in 1 of 16 cases so that the open known finding stays observable
        // (never lifted in the checksum build, where these schedules serve C18: the finding belongs to C03)
        let lift = e.chance(1, 16) && !crate::codecs::CHECKSUM_BUILD;
        let cfg = GenCfg { closes: true, old_syn: !simultaneous, inject: false, max_ops: 120, byte_budget: 200_000, exclude_close_with_unsent: !lift, legacy_layout: ctx.legacy_layout };
        let nops = 5 + e.choose(cfg.max_ops - 4);
        // in 3/8 of the cases a legitimate prelude first drives the connection to a later state, so that closes,
        // faults and old duplicates also meet FIN-WAIT-2, CLOSING, LAST-ACK and TIME-WAIT often
        let plan = if ctx.legacy_layout { PreludePlan { target: 0, closer: 0, write: [0, 0] } } else { PreludePlan::decode(e, &[10, 1, 1, 1, 1, 1, 1]) };
        let mut left = cfg.byte_budget;
        let mut excluded = 0u64;
        let mut ops = vec![];
        let mut old_syn_used = false;
        let mut measured: Option<(bool, u32)> = None;
        let result = (|| -> Result<(), Failure> {
            run_prelude(&mut w, &plan, &mut ops)?;
            for _ in 0..nops {
                let op = gen_op(e, &w, &cfg, &mut left, &mut excluded);
                if matches!(op, Op::OldSyn { .. }) {
                    old_syn_used = true;
                }
                ops.push(op.clone());
                w.apply(&op)?;
            }
            let fine = e.chance(1, 2);
            let (tick, mult) = if fine { (50, 30) } else { (5000, 1) };
            let k = fair_bound(&w) * mult;
            if w.fair_phase(k, false, tick)?.is_none() {
                // not being quiescent is acceptable only while a TIME-WAIT endpoint lingers or closes stranded data (excluded)
                return Err(convergence_failure(&w, "not_quiescent_before_final_close", k));
            }
            for s in 0..2 {
                if w.sides[s].tcb.is_some() && !w.sides[s].close_accepted && e.chance(3, 4) {
                    let op = Op::Close { side: s };
                    ops.push(op.clone());
                    w.apply(&op)?;
                }
            }
            let both_closed = w.sides[0].close_accepted && w.sides[1].close_accepted;
            let k2 = 40 * mult;
            let r = w.fair_phase(k2, both_closed, tick)?;
            if let Some(r) = r {
                measured = Some((fine, r));
            }
            if both_closed {
                if r.is_none() {
                    return Err(convergence_failure(&w, "not_released_after_both_closed", k2));
                }
                for s in 0..2 {
                    ensure!(w.sides[s].tcb.is_none(), "release", "lingering", "side {s} still has a TCB in {:?} after both sides closed", w.state(s));
                }
            } else if r.is_none() {
                return Err(convergence_failure(&w, "not_quiescent_after_close", k2));
            }
            // (3) everything written was delivered
            for s in 0..2 {
                w.read(s)?;
                if w.sides[s].ever_established || w.sides[1 - s].ever_established {
                    ensure!(w.sides[s].read == w.sides[1 - s].written, "data_before_close_delivered", if w.sides[s].fin_seen { "unread_data_lost_after_fin" } else { "data_not_delivered" }, "side {s} read {} bytes but the peer wrote {} before closing (side {s} final state {:?}, released {:?})", w.sides[s].read, w.sides[1 - s].written, w.state(s), w.sides[s].released_by);
                }
            }
            if !old_syn_used {
                ensure!(!w.stats.rst_emitted_in_fair, "no_reset", "rst_in_fair_phase", "a RST was emitted in a fair phase");
                for s in 0..2 {
                    if let Some(how) = w.sides[s].released_by {
                        ensure!(how != "segment" || w.sides[s].close_accepted, "no_reset", "released_by_segment_without_close", "side {s} was released by a segment although it never closed");
                    }
                }
            }
            Ok(())
        })();
        ctx.excluded += excluded;
        if ctx.want_desc || result.is_err() {
            ctx.desc = Some(describe(&w, &ops, mtu, iss, simultaneous));
        }
        if let Err(f) = result {
            // a close() issued while text was still unsegmentised strands that text behind the FIN:
            // open known finding, identified by the call history, whatever oracle notices it first
            if w.stats.closed_with_unsent && (f.oracle == "convergence" || f.oracle == "data_before_close_delivered") {
                return Err(Failure::new("data_before_close_delivered", "close_with_unsegmentized_text", format!("close() was accepted while written text was not yet segmentised; noticed as [{}/{}] {}", f.oracle, f.tag, f.message)));
            }
            return Err(f);
        }
        if let Some((fine, r)) = measured {
            ctx.measure(if fine { "max_final_fair_rounds_50ms_ticks" } else { "max_final_fair_rounds_5s_ticks" }, r as f64);
            if fine {
                ctx.class("fair_phase_with_50ms_ticks");
            }
        }
        let both_est = w.sides[0].ever_established && w.sides[1].ever_established;
        let both_closed = w.sides[0].close_accepted && w.sides[1].close_accepted;
        ctx.nontrivial = both_est && w.stats.closes >= 1 && (w.stats.ctl_fault || w.stats.data_in_flight_at_close || both_closed);
        if both_closed {
            ctx.class("both_closed");
        }
        for c in &w.stats.close_called_in {
            ctx.class(c);
        }
        if w.stats.data_in_flight_at_close {
            ctx.class("data_in_flight_at_close");
        }
        if old_syn_used {
            ctx.class("old_duplicate_syn");
        }
        if w.stats.ctl_fault {
            ctx.class("fault_on_control_segment");
        }
        if simultaneous {
            ctx.class("simultaneous_open");
        }
        for s in 0..2 {
            match w.sides[s].released_by {
                Some("time-wait expiry") => ctx.class("released_by_2msl"),
                Some("segment") => ctx.class("released_by_final_ack"),
                _ => {}
            }
        }
        Ok(())
    }
}

// ------------------------------------------------------------------------------------------------

pub struct IsnIndependence;

impl Check for IsnIndependence {
    fn id(&self) -> &'static str {
        "C12.lockstep"
    }
    fn rule(&self) -> String {
        "generated: a C01/C03 schedule (writes, reads, pump, deliver/drop/duplicate any in-flight segment, ticks, closes, old duplicate SYN) is executed on ISNs (x, y) and replayed operation by operation on ISNs (x', y') where x', y' are uniform or chosen so that the sequence space wraps within 70000 of the start; after every operation the two normalised traces (flags, lengths, payload hash, seq minus own ISS, ack minus peer ISS, window, state changes, bytes read, results) must be identical; absolute SEQ=0 of a CLOSED-state reset is the one normalisation exception. non-trivial: in at least one of the two runs ISS + bytes sent crosses 2^32 or 2^31. distinct: hash of decoded schedule and shifts".into()
    }
    fn max_entropy(&self) -> usize {
        900
    }
    fn run(&self, e: &mut Entropy, ctx: &mut Ctx) -> Result<(), Failure> {
        let mtu = gen_mtu(e);
        let iss1 = [gen_iss(e), gen_iss(e)];
        let near = |e: &mut Entropy| -> u32 {
            match e.weighted(&[4, 2, 2]) {
                0 => near_wrap(e.choose(70000) as u32),
                1 => (1u32 << 31) - 1 - e.choose(70000) as u32,
                _ => e.u32(),
            }
        };
        let iss2 = [near(e), near(e)];
        let simultaneous = e.chance(1, 5);
        let salts = [e.u8(), e.u8()];
        let with_close = e.bool();
        let mut w1 = World::new(mtu, iss1, simultaneous, salts)?;
        let mut w2 = World::new(mtu, iss2, simultaneous, salts)?;
        w1.record_trace = true;
        w2.record_trace = true;
        let cfg = GenCfg { closes: with_close, old_syn: with_close && !simultaneous, inject: false, max_ops: 100, byte_budget: 150_000, exclude_close_with_unsent: false, legacy_layout: ctx.legacy_layout };
        let nops = 5 + e.choose(cfg.max_ops - 4);
        let mut left = cfg.byte_budget;
        let mut excluded = 0;
        let mut ops = vec![];
        let mut stopped = false;
        let mut compare = |w1: &mut World, w2: &mut World, what: &str| -> Result<(), Failure> {
            if w1.trace != w2.trace {
                let i = w1.trace.iter().zip(w2.trace.iter()).position(|(a, b)| a != b).unwrap_or(w1.trace.len().min(w2.trace.len()));
                return Err(Failure::new("isn_independence", "trace_differs", format!("{what}: traces differ at event {i}: ISNs {:?} give {:?}, ISNs {:?} give {:?}", [w1.sides[0].base_iss, w1.sides[1].base_iss], w1.trace.get(i), [w2.sides[0].base_iss, w2.sides[1].base_iss], w2.trace.get(i))));
            }
            for s in 0..2 {
                if w1.state(s) != w2.state(s) || w1.sides[s].read != w2.sides[s].read || w1.wire[s].len() != w2.wire[s].len() {
                    return Err(Failure::new("isn_independence", "state_differs", format!("{what}: side {s}: state {:?}/{:?}, read {}/{}, in flight {}/{}", w1.state(s), w2.state(s), w1.sides[s].read, w2.sides[s].read, w1.wire[s].len(), w2.wire[s].len())));
                }
            }
            w1.trace.clear();
            w2.trace.clear();
            Ok(())
        };
        // with closes: half of the cases first go to a later connection state by a legitimate prelude (run on the first
        // world, replayed operation by operation on the second)
        let plan = if with_close && !ctx.legacy_layout { PreludePlan::decode(e, &[6, 1, 1, 1, 1, 1, 1]) } else { PreludePlan { target: 0, closer: 0, write: [0, 0] } };
        let res = (|| -> Result<(), Failure> {
            let mut pre = vec![];
            let r1 = run_prelude(&mut w1, &plan, &mut pre);
            let mut r2 = Ok(());
            for op in &pre {
                r2 = w2.apply(op);
                if r2.is_err() {
                    break;
                }
            }
            ops.extend(pre);
            match (r1, r2) {
                (Ok(()), Ok(())) => {}
                (Err(f1), Err(f2)) if f1.oracle == f2.oracle && f1.tag == f2.tag => return Ok(()),
                (Err(f), _) | (_, Err(f)) => return Err(Failure::new("isn_independence", "one_run_fails", format!("prelude: the two runs do not fail alike: [{}/{}] {}", f.oracle, f.tag, f.message))),
            }
            compare(&mut w1, &mut w2, "after the prelude")?;
            for _ in 0..nops {
                let op = gen_op(e, &w1, &cfg, &mut left, &mut excluded);
                ops.push(op.clone());
                let r1 = w1.apply(&op);
                let r2 = w2.apply(&op);
                match (r1, r2) {
                    (Ok(()), Ok(())) => {}
                    (Err(f1), Err(f2)) => {
                        // both fail alike: not an ISN dependence (C01/C03/C17 report it); stop here
                        if f1.oracle == f2.oracle && f1.tag == f2.tag {
                            return Ok(());
                        }
                        return Err(Failure::new("isn_independence", "different_failures", format!("op {op:?}: run 1 fails with [{}] {}, run 2 with [{}] {}", f1.oracle, f1.message, f2.oracle, f2.message)));
                    }
                    (Err(f), Ok(())) | (Ok(()), Err(f)) => {
                        return Err(Failure::new("isn_independence", "one_run_fails", format!("op {op:?}: only one of the two runs fails: [{}/{}] {}", f.oracle, f.tag, f.message)));
                    }
                }
                compare(&mut w1, &mut w2, &format!("after {op:?}"))?;
                if w1.stats.absolute_seq_reset || w2.stats.absolute_seq_reset {
                    // RFC 9293 3.10.7.1 mandates the absolute SEQ=0 here; what the receiver of that
                    // reset does legitimately depends on its absolute RCV.NXT. Stop comparing.
                    stopped = true;
                    return Ok(());
                }
            }
            // fair phase in lock-step
            let r1 = w1.fair_phase(30, false, 5000);
            let r2 = w2.fair_phase(30, false, 5000);
            if w1.stats.absolute_seq_reset || w2.stats.absolute_seq_reset {
                stopped = true;
                return Ok(());
            }
            match (r1, r2) {
                (Ok(a), Ok(b)) => {
                    if a != b {
                        return Err(Failure::new("isn_independence", "fair_phase_differs", format!("fair phase: rounds {a:?} vs {b:?}")));
                    }
                }
                (Err(f1), Err(f2)) if f1.oracle == f2.oracle && f1.tag == f2.tag => return Ok(()),
                (Err(f), _) | (_, Err(f)) => return Err(Failure::new("isn_independence", "one_run_fails", format!("fair phase: [{}/{}] {}", f.oracle, f.tag, f.message))),
            }
            compare(&mut w1, &mut w2, "after the fair phase")?;
            Ok(())
        })();
        if ctx.want_desc || res.is_err() {
            let mut d = describe(&w1, &ops, mtu, iss1, simultaneous);
            d["iss_second_run"] = json!(iss2);
            ctx.desc = Some(d);
        }
        res?;
        let crosses = |iss: u32, n: usize| -> bool {
            let end = iss as u64 + n as u64 + 2;
            end > u32::MAX as u64 || (iss < (1 << 31) && end >= (1 << 31))
        };
        ctx.nontrivial = (0..2).any(|s| crosses(iss1[s], w1.sides[s].written) || crosses(iss2[s], w2.sides[s].written));
        if ctx.nontrivial {
            ctx.class("sequence_space_wraps_in_one_run");
        }
        if with_close {
            ctx.class("with_closes");
        }
        if stopped {
            ctx.class("stopped_at_absolute_seq_reset");
        }
        Ok(())
    }
}

// ------------------------------------------------------------------------------------------------

pub struct HostileSegments;

impl Check for HostileSegments {
    fn id(&self) -> &'static str {
        "C17"
    }
    fn rule(&self) -> String {
        "generated: a legitimate C01/C03 schedule (incl. closes) preceded in 13/16 of the cases by a legitimate prelude that drives the connection to ESTABLISHED, FIN-WAIT-1, FIN-WAIT-2/CLOSE-WAIT, CLOSING, LAST-ACK or TIME-WAIT (with 0..3000 bytes written each way), interleaved with crafted segments delivered to either endpoint from its peer's address: all 64 flag sets (mass on ACK, PSH-ACK, FIN-ACK, SYN, SYN-ACK, RST), seq at RCV.NXT+{-2..2}, RCV.NXT+WND+{-1,0,1}, RCV.NXT+0..70000, RCV.NXT+2^31+-1, random; ack at SND.UNA-1, SND.UNA+0..2, SND.NXT, SND.NXT+1..3, random; window 65535 / 0 / <200 / random (so shrinking windows occur); payload 0..MSS; also at LISTEN and CLOSED. oracles: no TCB call panics; every new data segment ends at or before SND.UNA+SND.WND of the snapshot taken before the segments() call (+1 while the own SYN is unacknowledged), and a segment that is certainly the newest acknowledgment (processed at once, seq = RCV.NXT, ack advancing SND.UNA) leaves SND.WND equal to the window it advertises; a crafted segment that must be rejected (entirely outside [RCV.NXT-1, RCV.NXT+WND) in a synchronised state, or neither SYN nor RST in SYN-SENT) leaves status() unchanged and releases nothing; as long as only such rejectable segments were forged the stream keeps C01's prefix property; a fair phase afterwards runs without panic. non-trivial: at least one crafted segment was processed in a synchronised state with seq or ack within 2 of a window edge / SND.UNA / SND.NXT. distinct: hash of decoded schedule".into()
    }
    fn assumptions(&self) -> Vec<String> {
        vec!["an acceptable forged segment (in window) may legitimately change state and data; from then on only the no-panic and send-window oracles apply".into()]
    }
    fn max_entropy(&self) -> usize {
        900
    }
    fn run(&self, e: &mut Entropy, ctx: &mut Ctx) -> Result<(), Failure> {
        let mtu = gen_mtu(e);
        let iss = [gen_iss(e), gen_iss(e)];
        let simultaneous = e.chance(1, 5);
        let salts = [e.u8(), e.u8()];
        let mut w = World::new(mtu, iss, simultaneous, salts)?;
        w.check_transitions = false; // forged segments may take any receive edge; C03 owns that oracle
        w.record_trace = ctx.want_desc;
        let cfg = GenCfg { closes: true, old_syn: false, inject: true, max_ops: 120, byte_budget: 200_000, exclude_close_with_unsent: true, legacy_layout: ctx.legacy_layout };
        let nops = 5 + e.choose(cfg.max_ops - 4);
        // prelude: drive the connection with legitimate operations to a chosen state before the forgeries start,
        // otherwise most forged segments meet the handshake states only
        let plan = if ctx.legacy_layout { PreludePlan { target: 0, closer: 0, write: [0, 0] } } else { PreludePlan::decode(e, &[3, 3, 2, 2, 2, 2, 2]) };
        let mut left = cfg.byte_budget;
        let mut excluded = 0u64;
        let mut ops = vec![];
        let res = (|| -> Result<(), Failure> {
            run_prelude(&mut w, &plan, &mut ops)?;
            for _ in 0..nops {
                let op = gen_op(e, &w, &cfg, &mut left, &mut excluded);
                ops.push(op.clone());
                w.apply(&op)?;
            }
            // recovery must not panic either
            let _ = w.fair_phase(12, false, 5000)?;
            Ok(())
        })();
        if ctx.want_desc || res.is_err() {
            ctx.desc = Some(describe(&w, &ops, mtu, iss, simultaneous));
        }
        res?;
        ctx.nontrivial = w.stats.injected_near_edge > 0;
        if w.stats.injected_must_reject > 0 {
            ctx.class("must_reject_segment_injected");
        }
        if w.stats.injected > 0 && !w.sides[0].read_tainted {
            ctx.class("only_rejectable_forgeries");
        }
        if w.stats.injected_near_edge > 0 {
            ctx.class("forgery_near_window_edge");
        }
        if w.stats.window_updates_checked > 0 {
            ctx.class("window_change_by_newest_ack_checked");
        }
        for st in &w.stats.injected_in {
            ctx.class(st);
        }
        if (0..2).any(|s| matches!(w.state(s), Some(State::Established))) {
            ctx.class("connection_survived");
        }
        Ok(())
    }
}

/// C18 (TCB part): in the checksum build the C03 schedules (incl. simultaneous opens, retransmissions, closes, resets) are run
/// and every segment a TCB emits is verified in `World::pump` with the independent RFC 1071 routine.
pub struct ChecksumsOfTcb;

impl Check for ChecksumsOfTcb {
    fn id(&self) -> &'static str {
        "C18.tcb"
    }
    fn rule(&self) -> String {
        "compute_checksum build. generated: the schedules of C03 (active/passive and simultaneous opens, writes, faults, retransmissions, closes from every state, old duplicate SYNs); oracle: every segment either TCB emits (header serialised + text) sums to 0xffff together with its pseudo header under the harness's RFC 1071 routine, besides C03's own oracles. non-trivial: as C03. distinct: hash of decoded schedule".into()
    }
    fn max_entropy(&self) -> usize {
        900
    }
    fn run(&self, e: &mut Entropy, ctx: &mut Ctx) -> Result<(), Failure> {
        if !crate::codecs::CHECKSUM_BUILD {
            fail!("harness", "not_the_checksum_build", "C18.tcb must run in the build with --features checksum");
        }
        OpenClose.run(e, ctx)
    }
}
