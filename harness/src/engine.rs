//! Engine shared by all checks: entropy decoder, sharded proptest runner, replay files,
//! known findings, evidence files.
//!
//! A case is a pure function of a byte string (the *entropy*). proptest generates and shrinks the
//! byte strings; `Entropy` decodes them monotonically (smaller bytes => simpler choices), so byte
//! level shrinking means "fewer operations, smaller sizes, earlier alternatives".

use proptest::collection::vec;
use proptest::prelude::*;
use proptest::test_runner::{Config, RngSeed, TestCaseError, TestError, TestRunner};
use serde_json::{json, Value};
use std::collections::{BTreeMap, HashSet};
use std::io::Write;
use std::panic::{self, AssertUnwindSafe};
use std::sync::atomic::{AtomicBool, Ordering};
use std::sync::{Arc, Mutex};
use std::time::Instant;

// ------------------------------------------------------------------------------------------------
// stdout handling: the repository prints a lot; fd 1 is redirected to /dev/null and the harness
// writes its own protocol lines to a saved copy of the original stdout.

static SAVED_STDOUT: Mutex<Option<i32>> = Mutex::new(None);

pub fn silence_stdout() {
    unsafe {
        let saved = libc::dup(1);
        let null = libc::open(b"/dev/null\0".as_ptr() as *const libc::c_char, libc::O_WRONLY);
        if saved >= 0 && null >= 0 {
            libc::dup2(null, 1);
            libc::close(null);
            *SAVED_STDOUT.lock().unwrap() = Some(saved);
        }
    }
}

pub fn out(line: &str) {
    let guard = SAVED_STDOUT.lock().unwrap();
    let mut text = line.to_string();
    text.push('\n');
    match *guard {
        Some(fd) => unsafe {
            let bytes = text.as_bytes();
            let mut off = 0;
            while off < bytes.len() {
                let n = libc::write(fd, bytes[off..].as_ptr() as *const libc::c_void, bytes.len() - off);
                if n <= 0 {
                    break;
                }
                off += n as usize;
            }
        },
        None => {
            let _ = std::io::stdout().write_all(text.as_bytes());
        }
    }
}

#[macro_export]
macro_rules! outln {
    ($($arg:tt)*) => { $crate::engine::out(&format!($($arg)*)) };
}

// ------------------------------------------------------------------------------------------------
// panic capture

#[derive(Debug, Clone)]
pub struct PanicInfo {
    pub file: String,
    pub line: u32,
    pub message: String,
    pub thread: String,
}

thread_local! {
    static LOCAL_PANICS: std::cell::RefCell<Vec<PanicInfo>> = const { std::cell::RefCell::new(Vec::new()) };
}
static GLOBAL_PANICS: Mutex<Vec<PanicInfo>> = Mutex::new(Vec::new());
/// When set, panics on any thread are recorded in GLOBAL_PANICS (multi-thread runtime cases).
static GLOBAL_CAPTURE: AtomicBool = AtomicBool::new(false);
/// Panics on threads named "vh-mt-<n>-…" (worker threads of a case's own multi-thread runtime) are always
/// recorded in GLOBAL_PANICS; each case takes its own by that name, so concurrent shards do not mix them up.
static MT_SERIAL: std::sync::atomic::AtomicU64 = std::sync::atomic::AtomicU64::new(1);

/// At most a quarter of the cores' worth of real-time (multi-thread runtime) cases run at once, so that the shards do not
/// oversubscribe the machine and distort each other's timing.
static MT_RUNNING: Mutex<usize> = Mutex::new(0);
static MT_CV: std::sync::Condvar = std::sync::Condvar::new();

pub struct MtPermit;

pub fn mt_permit() -> MtPermit {
    let max = (std::thread::available_parallelism().map(|n| n.get()).unwrap_or(4) / 4).max(2);
    let mut n = MT_RUNNING.lock().unwrap();
    while *n >= max {
        n = MT_CV.wait(n).unwrap();
    }
    *n += 1;
    MtPermit
}

impl Drop for MtPermit {
    fn drop(&mut self) {
        *MT_RUNNING.lock().unwrap() -= 1;
        MT_CV.notify_one();
    }
}

/// A fresh multi-thread runtime whose worker threads carry a unique name; returns the runtime and the name prefix.
pub fn mt_runtime(workers: usize) -> (tokio::runtime::Runtime, String) {
    let name = format!("vh-mt-{}-", MT_SERIAL.fetch_add(1, Ordering::SeqCst));
    let rt = tokio::runtime::Builder::new_multi_thread().worker_threads(workers).thread_name(name.clone()).enable_time().build().expect("runtime");
    (rt, name)
}

/// Panics recorded on the worker threads of the runtime with this name prefix.
pub fn take_mt_panics(prefix: &str) -> Vec<PanicInfo> {
    let mut g = GLOBAL_PANICS.lock().unwrap();
    let (mine, rest): (Vec<PanicInfo>, Vec<PanicInfo>) = g.drain(..).partition(|p| p.thread.starts_with(prefix));
    *g = rest;
    mine
}

pub fn install_panic_hook() {
    panic::set_hook(Box::new(|info| {
        let (file, line) = info
            .location()
            .map(|l| (l.file().to_string(), l.line()))
            .unwrap_or_default();
        let message = if let Some(s) = info.payload().downcast_ref::<&str>() {
            s.to_string()
        } else if let Some(s) = info.payload().downcast_ref::<String>() {
            s.clone()
        } else {
            "<non-string panic>".to_string()
        };
        let p = PanicInfo {
            file,
            line,
            message,
            thread: std::thread::current().name().unwrap_or("?").to_string(),
        };
        if GLOBAL_CAPTURE.load(Ordering::SeqCst) || p.thread.starts_with("vh-mt-") {
            GLOBAL_PANICS.lock().unwrap().push(p.clone());
        }
        LOCAL_PANICS.with(|l| l.borrow_mut().push(p));
    }));
}

pub fn take_local_panics() -> Vec<PanicInfo> {
    LOCAL_PANICS.with(|l| std::mem::take(&mut *l.borrow_mut()))
}

pub fn global_capture(on: bool) {
    GLOBAL_CAPTURE.store(on, Ordering::SeqCst);
    if on {
        GLOBAL_PANICS.lock().unwrap().clear();
    }
}

pub fn take_global_panics() -> Vec<PanicInfo> {
    std::mem::take(&mut *GLOBAL_PANICS.lock().unwrap())
}

/// Source text of the panicking line, read from the file at run time, so that tags are stable
/// under line shifts. Falls back to file name only.
pub fn panic_tag(p: &PanicInfo) -> String {
    let base = p.file.rsplit('/').next().unwrap_or("?").to_string();
    let mut candidates = vec![p.file.clone()];
    candidates.push(format!("/repo/sim/{}", p.file));
    candidates.push(format!("/repo/sim/elvis-core/{}", p.file));
    candidates.push(format!("/repo/sim/elvis/{}", p.file));
    for c in candidates {
        if let Ok(text) = std::fs::read_to_string(&c) {
            if let Some(l) = text.lines().nth(p.line.saturating_sub(1) as usize) {
                return format!("panic@{}:\"{}\"", base, l.trim());
            }
        }
    }
    format!("panic@{}", base)
}

/// Runs `f`, converting a panic into a Failure with oracle "no_panic".
pub fn guard<T>(f: impl FnOnce() -> T) -> Result<T, Failure> {
    let _ = take_local_panics();
    match panic::catch_unwind(AssertUnwindSafe(f)) {
        Ok(v) => Ok(v),
        Err(_) => {
            let ps = take_local_panics();
            Err(panic_failure(&ps))
        }
    }
}

pub fn panic_failure(ps: &[PanicInfo]) -> Failure {
    match ps.first() {
        Some(p) => Failure {
            oracle: "no_panic".into(),
            tag: panic_tag(p),
            message: format!("panic at {}:{}: {}", p.file, p.line, p.message),
        },
        None => Failure {
            oracle: "no_panic".into(),
            tag: "panic@?".into(),
            message: "panic without recorded location".into(),
        },
    }
}

// ------------------------------------------------------------------------------------------------
// Entropy

pub struct Entropy<'a> {
    data: &'a [u8],
    pos: usize,
    /// running hash of all decisions taken: identifies the decoded case
    pub hash: u64,
}

impl<'a> Entropy<'a> {
    pub fn new(data: &'a [u8]) -> Self {
        Self {
            data,
            pos: 0,
            hash: 0xcbf29ce484222325,
        }
    }

    fn mix(&mut self, v: u64) {
        self.hash ^= v.wrapping_add(0x9e3779b97f4a7c15);
        self.hash = self.hash.wrapping_mul(0x100000001b3).rotate_left(17);
    }

    pub fn exhausted(&self) -> bool {
        self.pos >= self.data.len()
    }

    pub fn consumed(&self) -> usize {
        self.pos.min(self.data.len())
    }

    fn raw(&mut self) -> u8 {
        let b = self.data.get(self.pos).copied().unwrap_or(0);
        self.pos += 1;
        b
    }

    pub fn byte(&mut self) -> u8 {
        let b = self.raw();
        self.mix(b as u64);
        b
    }

    fn raw16(&mut self) -> u32 {
        ((self.raw() as u32) << 8) | self.raw() as u32
    }

    /// uniform-ish choice in 0..n, monotone in the entropy bytes; 0 when exhausted
    pub fn choose(&mut self, n: usize) -> usize {
        if n <= 1 {
            return 0;
        }
        let v = if n <= 256 {
            (self.raw() as usize * n) >> 8
        } else if n <= 65536 {
            (self.raw16() as usize * n) >> 16
        } else {
            let x = ((self.raw16() as u64) << 16) | self.raw16() as u64;
            ((x as u128 * n as u128) >> 32) as usize
        };
        self.mix(v as u64);
        v
    }

    /// inclusive range
    pub fn range(&mut self, lo: u64, hi: u64) -> u64 {
        debug_assert!(lo <= hi);
        let span = hi - lo;
        if span == u64::MAX {
            return self.u64();
        }
        let n = span + 1;
        let v = if n <= 256 {
            (self.raw() as u64 * n) >> 8
        } else if n <= 65536 {
            (self.raw16() as u64 * n) >> 16
        } else if n <= 1 << 32 {
            let x = ((self.raw16() as u64) << 16) | self.raw16() as u64;
            (x * n) >> 32
        } else {
            let x = self.u64_raw();
            ((x as u128 * n as u128) >> 64) as u64
        };
        self.mix(v);
        lo + v
    }

    fn u64_raw(&mut self) -> u64 {
        let mut x = 0u64;
        for _ in 0..8 {
            x = (x << 8) | self.raw() as u64;
        }
        x
    }

    pub fn bool(&mut self) -> bool {
        self.choose(2) == 1
    }

    /// true with probability about num/den
    pub fn chance(&mut self, num: u32, den: u32) -> bool {
        (self.choose(den as usize) as u32) >= den - num
    }

    pub fn u8(&mut self) -> u8 {
        self.byte()
    }
    pub fn u16(&mut self) -> u16 {
        let v = self.raw16() as u16;
        self.mix(v as u64);
        v
    }
    pub fn u32(&mut self) -> u32 {
        let v = (self.raw16() << 16) | self.raw16();
        self.mix(v as u64);
        v
    }
    pub fn u64(&mut self) -> u64 {
        let v = self.u64_raw();
        self.mix(v);
        v
    }

    /// index chosen according to weights; index 0 when exhausted (put the simplest first)
    pub fn weighted(&mut self, weights: &[u32]) -> usize {
        let total: u32 = weights.iter().sum();
        let mut x = self.choose(total as usize) as u32;
        for (i, w) in weights.iter().enumerate() {
            if x < *w {
                return i;
            }
            x -= *w;
        }
        weights.len() - 1
    }

    pub fn bytes(&mut self, n: usize) -> Vec<u8> {
        let mut v = Vec::with_capacity(n);
        for _ in 0..n {
            v.push(self.raw());
        }
        let h = v.iter().fold(0u64, |a, b| a.wrapping_mul(31).wrapping_add(*b as u64));
        self.mix(h ^ n as u64);
        v
    }

    pub fn pick<'b, T>(&mut self, items: &'b [T]) -> &'b T {
        &items[self.choose(items.len())]
    }
}

// ------------------------------------------------------------------------------------------------
// Check interface

#[derive(Debug, Clone)]
pub struct Failure {
    pub oracle: String,
    pub tag: String,
    pub message: String,
}

impl Failure {
    pub fn new(oracle: &str, tag: &str, message: String) -> Self {
        Self {
            oracle: oracle.into(),
            tag: tag.into(),
            message,
        }
    }
}

#[macro_export]
macro_rules! fail {
    ($oracle:expr, $tag:expr, $($arg:tt)*) => {
        return Err($crate::engine::Failure::new($oracle, $tag, format!($($arg)*)))
    };
}

#[macro_export]
macro_rules! ensure {
    ($cond:expr, $oracle:expr, $tag:expr, $($arg:tt)*) => {
        if !($cond) {
            return Err($crate::engine::Failure::new($oracle, $tag, format!($($arg)*)));
        }
    };
}

/// Per-case context: what the case turned out to be.
#[derive(Default)]
pub struct Ctx {
    /// set when replaying a file written before the generators of C03, C13, C17 and C20 were extended (no "layout" key):
    /// those checks then decode the entropy exactly as they did when the file was written
    pub legacy_layout: bool,
    /// the non-triviality rule of the property held for what actually happened
    pub nontrivial: bool,
    /// class labels for the histogram
    pub classes: Vec<&'static str>,
    /// fill `desc` with a human readable rendering of the decoded case (samples, replays)
    pub want_desc: bool,
    pub desc: Option<Value>,
    /// shapes excluded by construction because an open known finding covers them
    pub excluded: u64,
    /// additional numeric measurements: name -> value, aggregated as max
    pub measures: Vec<(&'static str, f64)>,
    /// sub-evaluations inside the case (e.g. comparison tuples)
    pub sub_evals: u64,
    /// replay mode: be strict about tolerated things
    pub strict: bool,
}

impl Ctx {
    pub fn class(&mut self, c: &'static str) {
        if !self.classes.contains(&c) {
            self.classes.push(c);
        }
    }
    pub fn measure(&mut self, name: &'static str, v: f64) {
        self.measures.push((name, v));
    }
}

pub trait Check: Sync + Send {
    fn id(&self) -> &'static str;
    fn rule(&self) -> String;
    fn assumptions(&self) -> Vec<String> {
        vec![]
    }
    fn max_entropy(&self) -> usize {
        2048
    }
    /// Runs one case. Must be a pure function of the entropy (and the code under test).
    fn run(&self, e: &mut Entropy, ctx: &mut Ctx) -> Result<(), Failure>;
}

// ------------------------------------------------------------------------------------------------
// Known findings

#[derive(Debug, Clone)]
pub struct Finding {
    pub status: String, // "open" | "fixed"
    pub property: String,
    pub oracle: String,
    pub tag: String,
    pub what: String,
    pub witness: Option<String>,
}

pub fn verif_root() -> String {
    std::env::var("VERIF_ROOT").unwrap_or_else(|_| "/verif".to_string())
}

pub fn load_findings() -> Vec<Finding> {
    let path = format!("{}/known_findings.json", verif_root());
    let text = match std::fs::read_to_string(&path) {
        Ok(t) => t,
        Err(_) => return vec![],
    };
    let v: Value = match serde_json::from_str(&text) {
        Ok(v) => v,
        Err(e) => {
            eprintln!("known_findings.json unreadable: {e}");
            return vec![];
        }
    };
    let mut out = vec![];
    if let Some(arr) = v.get("findings").and_then(|f| f.as_array()) {
        for f in arr {
            let s = |k: &str| f.get(k).and_then(|x| x.as_str()).unwrap_or("").to_string();
            out.push(Finding {
                status: s("status"),
                property: s("property"),
                oracle: s("oracle"),
                tag: s("tag"),
                what: s("what"),
                witness: f.get("witness").and_then(|x| x.as_str()).map(|x| x.to_string()),
            });
        }
    }
    out
}

pub fn open_match<'a>(findings: &'a [Finding], property: &str, f: &Failure) -> Option<&'a Finding> {
    findings
        .iter()
        .find(|k| k.status == "open" && k.property == property && k.oracle == f.oracle && k.tag == f.tag)
}

// ------------------------------------------------------------------------------------------------
// Watchdog: a single case that runs longer than VERIF_CASE_TIMEOUT seconds (default 120) makes the
// run inconclusive (exit 2); the entropy of the case is saved so that it can be replayed.

static WATCH: Mutex<Vec<Option<(Instant, Vec<u8>)>>> = Mutex::new(Vec::new());
static WATCHDOG_STARTED: AtomicBool = AtomicBool::new(false);

pub fn watch_set(slot: usize, data: Option<&[u8]>) {
    let mut w = WATCH.lock().unwrap();
    if w.len() <= slot {
        w.resize(slot + 1, None);
    }
    w[slot] = data.map(|d| (Instant::now(), d.to_vec()));
}

pub fn start_watchdog(id: &'static str) {
    if WATCHDOG_STARTED.swap(true, Ordering::SeqCst) {
        return;
    }
    let limit: u64 = std::env::var("VERIF_CASE_TIMEOUT").ok().and_then(|s| s.parse().ok()).unwrap_or(120);
    std::thread::spawn(move || loop {
        std::thread::sleep(std::time::Duration::from_secs(1));
        let hit: Option<Vec<u8>> = {
            let w = WATCH.lock().unwrap();
            w.iter().flatten().find(|slot| slot.0.elapsed().as_secs() >= limit).map(|s| s.1.clone())
        };
        if let Some(data) = hit {
            let dir = format!("{}/replays", verif_root());
            let _ = std::fs::create_dir_all(&dir);
            let path = format!("{}/{}-hang.json", dir, id);
            let v = json!({"property": id, "entropy": hex(&data), "oracle": "watchdog", "tag": "case_timeout", "message": format!("a single case ran longer than {limit} s")});
            let _ = std::fs::write(&path, serde_json::to_string_pretty(&v).unwrap());
            out(&format!("INCONCLUSIVE property={} a single case ran longer than {} s; entropy saved to {}", id, limit, path));
            std::process::exit(2);
        }
    });
}

// ------------------------------------------------------------------------------------------------
// Runner

#[derive(Clone)]
pub struct RunCfg {
    pub tier: String,
    pub seed: u64,
    pub cases: u64,
    pub shards: usize,
}

#[derive(Default)]
struct Stats {
    evaluations: u64,
    sub_evals: u64,
    nontrivial: HashSet<u64>,
    classes: BTreeMap<&'static str, u64>,
    samples: Vec<Value>,
    excluded: u64,
    known_hits: BTreeMap<String, u64>,
    measures: BTreeMap<&'static str, f64>,
}

pub struct RunResult {
    pub violation: Option<(Failure, Vec<u8>)>,
    pub evidence: Value,
    pub known_lines: Vec<String>,
}

pub fn hex(b: &[u8]) -> String {
    b.iter().map(|x| format!("{:02x}", x)).collect()
}
pub fn unhex(s: &str) -> Vec<u8> {
    (0..s.len() / 2)
        .filter_map(|i| u8::from_str_radix(&s[2 * i..2 * i + 2], 16).ok())
        .collect()
}

/// Runs one entropy through the check with panic capture.
pub fn run_one(check: &dyn Check, data: &[u8], ctx: &mut Ctx) -> (Result<(), Failure>, u64) {
    let mut e = Entropy::new(data);
    let _ = take_local_panics();
    let r = panic::catch_unwind(AssertUnwindSafe(|| check.run(&mut e, ctx)));
    let hash = e.hash;
    match r {
        Ok(r) => (r, hash),
        Err(_) => {
            let ps = take_local_panics();
            let mut f = panic_failure(&ps);
            f.oracle = "no_panic(harness-level)".into();
            (Err(f), hash)
        }
    }
}

pub fn run_generated(check: Arc<dyn Check>, cfg: &RunCfg, findings: &[Finding]) -> RunResult {
    start_watchdog(check.id());
    let stop = Arc::new(AtomicBool::new(false));
    let shards = cfg.shards.max(1);
    let per = (cfg.cases + shards as u64 - 1) / shards as u64;
    let mut handles = vec![];
    for shard in 0..shards {
        let check = check.clone();
        let stop = stop.clone();
        let findings: Vec<Finding> = findings.to_vec();
        let seed = cfg.seed;
        let h = std::thread::Builder::new()
            .name(format!("shard{shard}"))
            .stack_size(64 << 20)
            .spawn(move || shard_run(check, shard, per, seed, stop, findings))
            .unwrap();
        handles.push(h);
    }
    let mut total = Stats::default();
    let mut violation: Option<(Failure, Vec<u8>)> = None;
    for h in handles {
        let (st, v) = h.join().expect("shard thread must not die");
        total.evaluations += st.evaluations;
        total.sub_evals += st.sub_evals;
        total.nontrivial.extend(st.nontrivial);
        for (k, n) in st.classes {
            *total.classes.entry(k).or_default() += n;
        }
        for s in st.samples {
            if total.samples.len() < 5 {
                total.samples.push(s);
            }
        }
        total.excluded += st.excluded;
        for (k, n) in st.known_hits {
            *total.known_hits.entry(k).or_default() += n;
        }
        for (k, v) in st.measures {
            let e = total.measures.entry(k).or_insert(v);
            if v > *e {
                *e = v;
            }
        }
        if violation.is_none() {
            violation = v;
        }
    }
    let mut known_lines = vec![];
    for (k, n) in &total.known_hits {
        known_lines.push(format!("{k} (hit {n} times in generated cases)"));
    }
    let evidence = json!({
        "evaluations": total.evaluations,
        "sub_evaluations": total.sub_evals,
        "distinct_nontrivial": total.nontrivial.len(),
        "classes": total.classes.iter().map(|(k, v)| (k.to_string(), json!(v))).collect::<serde_json::Map<_, _>>(),
        "samples": total.samples,
        "excluded_by_construction": total.excluded,
        "known_finding_hits": total.known_hits.iter().map(|(k, v)| (k.clone(), json!(v))).collect::<serde_json::Map<_, _>>(),
        "measures": total.measures.iter().map(|(k, v)| (k.to_string(), json!(v))).collect::<serde_json::Map<_, _>>(),
    });
    RunResult {
        violation,
        evidence,
        known_lines,
    }
}

fn shard_run(
    check: Arc<dyn Check>,
    shard: usize,
    cases: u64,
    seed: u64,
    stop: Arc<AtomicBool>,
    findings: Vec<Finding>,
) -> (Stats, Option<(Failure, Vec<u8>)>) {
    let mut seed_bytes = [0u8; 32];
    seed_bytes[..8].copy_from_slice(&seed.to_le_bytes());
    seed_bytes[8..16].copy_from_slice(&(shard as u64).to_le_bytes());
    let id_hash = check.id().bytes().fold(0u64, |a, b| a.wrapping_mul(131).wrapping_add(b as u64));
    seed_bytes[16..24].copy_from_slice(&id_hash.to_le_bytes());
    let config = Config {
        cases: cases as u32,
        failure_persistence: None,
        rng_seed: RngSeed::Fixed(seed ^ (shard as u64).wrapping_mul(0x9e3779b97f4a7c15) ^ id_hash),
        max_shrink_iters: 3000,
        max_shrink_time: std::env::var("VERIF_SHRINK_MS").ok().and_then(|s| s.parse().ok()).unwrap_or(45_000),
        max_global_rejects: 1,
        ..Config::default()
    };
    let _ = seed_bytes;
    let mut runner = TestRunner::new(config);
    let stats = std::cell::RefCell::new(Stats::default());
    let failed = std::cell::Cell::new(false);
    let last_fail: std::cell::RefCell<Option<Failure>> = std::cell::RefCell::new(None);
    let max_len = check.max_entropy();
    let prop_id = check.id();
    let strategy = vec(any::<u8>(), 0..max_len);
    let result = runner.run(&strategy, |data| {
        if stop.load(Ordering::Relaxed) && !failed.get() {
            return Ok(());
        }
        let mut ctx = Ctx::default();
        let counting = !failed.get();
        if counting {
            let st = stats.borrow();
            // describe the first few non-trivial cases as samples (cheap heuristic: ask for a
            // description while fewer than 2 samples were collected in this shard)
            ctx.want_desc = st.samples.len() < 2;
        }
        watch_set(shard, Some(&data));
        let (r, hash) = run_one(check.as_ref(), &data, &mut ctx);
        watch_set(shard, None);
        match r {
            Ok(()) => {
                if counting {
                    let mut st = stats.borrow_mut();
                    st.evaluations += 1;
                    st.sub_evals += ctx.sub_evals;
                    st.excluded += ctx.excluded;
                    for c in &ctx.classes {
                        *st.classes.entry(c).or_default() += 1;
                    }
                    for (k, v) in &ctx.measures {
                        let e = st.measures.entry(k).or_insert(*v);
                        if *v > *e {
                            *e = *v;
                        }
                    }
                    if ctx.nontrivial {
                        st.nontrivial.insert(hash);
                        if let Some(d) = ctx.desc.take() {
                            if st.samples.len() < 2 {
                                st.samples.push(d);
                            }
                        }
                    }
                }
                Ok(())
            }
            Err(f) => {
                if let Some(k) = open_match(&findings, prop_id, &f) {
                    if counting {
                        let mut st = stats.borrow_mut();
                        st.evaluations += 1;
                        *st.known_hits
                            .entry(format!("property={} {} [{} / {}]", k.property, k.what, k.oracle, k.tag))
                            .or_default() += 1;
                    }
                    return Ok(());
                }
                failed.set(true);
                stop.store(true, Ordering::Relaxed);
                *last_fail.borrow_mut() = Some(f.clone());
                Err(TestCaseError::fail(format!("[{}] {}", f.oracle, f.message)))
            }
        }
    });
    let violation = match result {
        Ok(()) => None,
        Err(TestError::Fail(_, data)) => {
            // re-run the shrunk input to get its own failure record
            let mut ctx = Ctx::default();
            let (r, _) = run_one(check.as_ref(), &data, &mut ctx);
            let f = match r {
                Err(f) => f,
                Ok(()) => last_fail.borrow().clone().unwrap_or(Failure::new(
                    "unstable",
                    "unstable",
                    "failure did not reproduce on the shrunk input".into(),
                )),
            };
            Some((f, data))
        }
        Err(TestError::Abort(reason)) => Some((
            Failure::new("harness", "abort", format!("proptest aborted: {reason}")),
            vec![],
        )),
    };
    (stats.into_inner(), violation)
}

// ------------------------------------------------------------------------------------------------
// Replay files

pub fn write_replay(check: &dyn Check, tier: &str, seed: u64, f: &Failure, data: &[u8]) -> String {
    let dir = format!("{}/replays", verif_root());
    let _ = std::fs::create_dir_all(&dir);
    let mut ctx = Ctx {
        want_desc: true,
        ..Default::default()
    };
    let _ = run_one(check, data, &mut ctx);
    let h = data.iter().fold(0u64, |a, b| a.wrapping_mul(1099511628211).wrapping_add(*b as u64));
    let path = format!("{}/{}-{:016x}.json", dir, check.id(), h);
    let v = json!({
        "property": check.id(),
        "tier": tier,
        "seed": seed,
        "entropy": hex(data),
        "layout": 2,
        "oracle": f.oracle,
        "tag": f.tag,
        "message": f.message,
        "case": ctx.desc.unwrap_or(Value::Null),
    });
    let _ = std::fs::write(&path, serde_json::to_string_pretty(&v).unwrap());
    path
}

pub enum ReplayOutcome {
    Pass,
    Fail(Failure),
}

pub fn replay_file(check: &dyn Check, path: &str) -> Result<(ReplayOutcome, Value), String> {
    let text = std::fs::read_to_string(path).map_err(|e| format!("{path}: {e}"))?;
    let v: Value = serde_json::from_str(&text).map_err(|e| format!("{path}: {e}"))?;
    let data = unhex(v.get("entropy").and_then(|x| x.as_str()).unwrap_or(""));
    start_watchdog(check.id());
    watch_set(999, Some(&data));
    let mut ctx = Ctx {
        want_desc: true,
        strict: true,
        legacy_layout: v.get("layout").is_none(),
        ..Default::default()
    };
    let (r, _) = run_one(check, &data, &mut ctx);
    watch_set(999, None);
    if std::env::var("VERIF_SHOW_CASE").is_ok() {
        out(&serde_json::to_string_pretty(&ctx.desc.clone().unwrap_or(Value::Null)).unwrap_or_default());
    }
    Ok((
        match r {
            Ok(()) => ReplayOutcome::Pass,
            Err(f) => ReplayOutcome::Fail(f),
        },
        v,
    ))
}

// ------------------------------------------------------------------------------------------------
// Top-level driver for one property

pub struct Part {
    pub check: Arc<dyn Check>,
    pub quick_cases: u64,
    pub thorough_cases: u64,
}

pub fn drive(property: &str, level: &str, parts: Vec<Part>, tier: &str, extra_assumptions: Vec<String>) -> i32 {
    let start = Instant::now();
    let seed: u64 = std::env::var("VERIF_SEED")
        .ok()
        .and_then(|s| s.trim().parse::<i64>().ok())
        .map(|x| x as u64)
        .unwrap_or(1);
    let shards: usize = std::env::var("VERIF_SHARDS")
        .ok()
        .and_then(|s| s.parse().ok())
        .unwrap_or(16);
    let scale: f64 = std::env::var("VERIF_SCALE").ok().and_then(|s| s.parse().ok()).unwrap_or(1.0);
    let findings = load_findings();
    let mut exit = 0;
    let mut violations = 0;
    let mut known_lines: Vec<String> = vec![];
    let mut part_evidence = vec![];
    let mut total_eval = 0u64;
    let mut total_nontrivial = 0u64;
    let mut samples: Vec<Value> = vec![];
    let mut rules = vec![];
    let mut assumptions = extra_assumptions;

    // 1. witnesses: open findings must still be what they were; fixed ones must pass
    let wdir = format!("{}/witness/{}", verif_root(), property);
    let mut witness_report = vec![];
    if let Ok(rd) = std::fs::read_dir(&wdir) {
        let mut files: Vec<_> = rd.filter_map(|e| e.ok()).map(|e| e.path()).collect();
        files.sort();
        for p in files {
            if p.extension().map(|e| e != "json").unwrap_or(true) {
                continue;
            }
            let path = p.to_string_lossy().to_string();
            let text = std::fs::read_to_string(&path).unwrap_or_default();
            let v: Value = serde_json::from_str(&text).unwrap_or(Value::Null);
            let part_id = v.get("property").and_then(|x| x.as_str()).unwrap_or("");
            let Some(part) = parts.iter().find(|p| p.check.id() == part_id) else {
                continue;
            };
            match replay_file(part.check.as_ref(), &path) {
                Ok((ReplayOutcome::Pass, _)) => {
                    witness_report.push(json!({"file": path, "result": "pass"}));
                }
                Ok((ReplayOutcome::Fail(f), _)) => {
                    if let Some(k) = open_match(&findings, part_id, &f)
                        .or_else(|| open_match(&findings, property, &f))
                    {
                        known_lines.push(format!("property={} {} [{} / {}] witness={}", property, k.what, k.oracle, k.tag, path));
                        witness_report.push(json!({"file": path, "result": "known-finding", "tag": f.tag}));
                    } else {
                        outln!("VIOLATION property={} replay={}", property, path);
                        outln!("  witness/regression input fails: [{}] {} :: {}", f.oracle, f.tag, f.message);
                        violations += 1;
                        exit = 1;
                        witness_report.push(json!({"file": path, "result": "VIOLATION", "oracle": f.oracle, "tag": f.tag, "message": f.message}));
                    }
                }
                Err(e) => {
                    eprintln!("witness unreadable: {e}");
                }
            }
        }
    }

    // 2. generated search
    for part in &parts {
        let cases = if tier == "thorough" { part.thorough_cases } else { part.quick_cases };
        let cases = ((cases as f64) * scale).ceil() as u64;
        let cfg = RunCfg {
            tier: tier.to_string(),
            seed,
            cases,
            shards,
        };
        // findings may be keyed by the part id or by the property id
        let mut fs: Vec<Finding> = findings.clone();
        for f in fs.iter_mut() {
            if f.property == property {
                f.property = part.check.id().to_string();
            }
        }
        let t0 = Instant::now();
        let res = run_generated(part.check.clone(), &cfg, &fs);
        let secs = t0.elapsed().as_secs_f64();
        for l in &res.known_lines {
            known_lines.push(l.replace(&format!("property={}", part.check.id()), &format!("property={}", property)));
        }
        if let Some((f, data)) = &res.violation {
            let path = write_replay(part.check.as_ref(), tier, seed, f, data);
            outln!("VIOLATION property={} replay={}", property, path);
            outln!("  part={} oracle={} tag={}", part.check.id(), f.oracle, f.tag);
            outln!("  {}", f.message);
            violations += 1;
            exit = 1;
        }
        let ev = res.evidence;
        total_eval += ev["evaluations"].as_u64().unwrap_or(0);
        total_nontrivial += ev["distinct_nontrivial"].as_u64().unwrap_or(0);
        if let Some(arr) = ev["samples"].as_array() {
            for s in arr {
                if samples.len() < 8 {
                    samples.push(json!({"part": part.check.id(), "case": s}));
                }
            }
        }
        rules.push(format!("[{}] {}", part.check.id(), part.check.rule()));
        for a in part.check.assumptions() {
            if !assumptions.contains(&a) {
                assumptions.push(a);
            }
        }
        let mut pe = ev;
        pe["part"] = json!(part.check.id());
        pe["wall_s"] = json!(secs);
        pe.as_object_mut().unwrap().remove("samples");
        part_evidence.push(pe);
    }

    known_lines.sort();
    known_lines.dedup();
    // one line per listed finding: the witness replay and the hits in generated cases (of all parts) are merged
    let mut merged: Vec<(String, Vec<String>)> = vec![];
    for l in &known_lines {
        let (head, tail) = match l.rfind("] ") {
            Some(i) => (l[..i + 1].to_string(), l[i + 2..].to_string()),
            None => (l.clone(), String::new()),
        };
        match merged.iter_mut().find(|m| m.0 == head) {
            Some(m) => m.1.push(tail),
            None => merged.push((head, vec![tail])),
        }
    }
    let known_lines: Vec<String> = merged.into_iter().map(|(h, t)| format!("{h} {}", t.join("; "))).collect();
    for l in &known_lines {
        outln!("KNOWN-FINDING: {}", l);
    }

    let wall = start.elapsed().as_secs_f64();
    if samples.is_empty() {
        samples.push(json!("no non-trivial sample was described in this run"));
    }
    let evidence = json!({
        "property_id": property,
        "tier": if tier == "thorough" { "thorough" } else { "quick" },
        "seed": seed as i64,
        "level": level,
        "coverage": {
            "evaluations": total_eval,
            "distinct_nontrivial": total_nontrivial,
            "rule": rules.join(" || "),
            "samples": samples,
            "parts": part_evidence,
            "witnesses": witness_report,
            "known_findings_reported": known_lines,
        },
        "assumptions": assumptions,
        "wall_s": wall,
        "violations": violations,
    });
    let epath = format!("{}/evidence/{}.json", verif_root(), property);
    let _ = std::fs::create_dir_all(format!("{}/evidence", verif_root()));
    if let Err(e) = std::fs::write(&epath, serde_json::to_string_pretty(&evidence).unwrap()) {
        eprintln!("cannot write evidence {epath}: {e}");
    }
    outln!(
        "{} {}: {} evaluations, {} distinct non-trivial, {} violation(s), {:.1}s",
        property, tier, total_eval, total_nontrivial, violations, wall
    );
    exit
}

pub fn replay_cli(property: &str, parts: Vec<Part>, path: &str) -> i32 {
    let text = std::fs::read_to_string(path).unwrap_or_default();
    let v: Value = serde_json::from_str(&text).unwrap_or(Value::Null);
    let part_id = v.get("property").and_then(|x| x.as_str()).unwrap_or("");
    let Some(part) = parts.iter().find(|p| p.check.id() == part_id) else {
        eprintln!("replay file names part '{part_id}', not part of {property}");
        return 2;
    };
    match replay_file(part.check.as_ref(), path) {
        Ok((ReplayOutcome::Pass, _)) => {
            outln!("replay {}: property held", path);
            0
        }
        Ok((ReplayOutcome::Fail(f), _)) => {
            outln!("VIOLATION property={} replay={}", property, path);
            outln!("  part={} oracle={} tag={}", part_id, f.oracle, f.tag);
            outln!("  {}", f.message);
            1
        }
        Err(e) => {
            eprintln!("{e}");
            2
        }
    }
}
