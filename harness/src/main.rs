//! vcheck <PROPERTY> <quick|thorough>            run the check, write evidence, exit 0/1/2
//! vcheck <PROPERTY> --replay <file>             re-run one saved case, bypassing proptest

use vh::*;

fn main() {
    let args: Vec<String> = std::env::args().collect();
    if args.len() < 3 {
        eprintln!("usage: vcheck <PROPERTY> <quick|thorough> | vcheck <PROPERTY> --replay <file>");
        std::process::exit(2);
    }
    silence_stdout();
    install_panic_hook();
    let id = args[1].as_str();
    let Some(parts) = parts_for(id) else {
        eprintln!("unknown property {id}");
        std::process::exit(2);
    };
    let code = if args[2] == "--replay" {
        let Some(path) = args.get(3) else {
            eprintln!("--replay needs a file");
            std::process::exit(2);
        };
        replay_cli(id, parts, path)
    } else {
        drive(id, "exploration", parts, args[2].as_str(), vec![])
    };
    std::process::exit(code);
}
