//! vcheck <PROPERTY> <quick|thorough>            run the check, write evidence, exit 0/1/2
//! vcheck <PROPERTY> --replay <file>             re-run one saved case, bypassing proptest

use vh::*;

fn main() {
    let args: Vec<String> = std::env::args().collect();
    if args.len() < 3 {
        eprintln!("usage: vcheck <PROPERTY> <quick|thorough> | vcheck <PROPERTY> --replay <file>");
        std::process::exit(2);
    }
    silence_stdout();
    install_panic_hook();
    let id = args[1].as_str();
    let Some(parts) = parts_for(id) else {
        eprintln!("unknown property {id}");
        std::process::exit(2);
    };
    if args[2] == "--export-corpus" {
        // tool mode (not a check): writes one passing generated case per distinct set of classes as a libFuzzer seed
        let (Some(part), Some(dir)) = (args.get(3), args.get(4)) else {
            eprintln!("--export-corpus <part> <dir> [tries]");
            std::process::exit(2);
        };
        let tries: u64 = args.get(5).and_then(|s| s.parse().ok()).unwrap_or(20_000);
        let Some(p) = parts.into_iter().find(|p| p.check.id() == part) else {
            eprintln!("unknown part {part}");
            std::process::exit(2);
        };
        std::fs::create_dir_all(dir).expect("corpus directory");
        let mut seen = std::collections::BTreeSet::new();
        let mut x: u64 = 0x9e3779b97f4a7c15;
        let mut written = 0;
        for i in 0..tries {
            let len = (p.check.max_entropy().min(1024) as u64 * (1 + i % 4) / 4) as usize;
            let data: Vec<u8> = (0..len)
                .map(|_| {
                    x ^= x << 13;
                    x ^= x >> 7;
                    x ^= x << 17;
                    // mostly small bytes: simple cases are the useful seeds
                    if x & 0x300 == 0 { (x >> 16) as u8 } else { ((x >> 16) as u8) & 0x3f }
                })
                .collect();
            let mut ctx = Ctx::default();
            let (r, _) = run_one(p.check.as_ref(), &data, &mut ctx);
            if r.is_err() || !ctx.nontrivial {
                continue;
            }
            let mut sig: Vec<&str> = ctx.classes.iter().copied().collect();
            sig.sort();
            if seen.insert(sig.join("+")) {
                std::fs::write(format!("{dir}/seed{written:03}"), &data).expect("write seed");
                written += 1;
                if written >= 256 {
                    break;
                }
            }
        }
        eprintln!("{written} seeds for {part} in {dir}");
        std::process::exit(0);
    }
    let code = if args[2] == "--replay" {
        let Some(path) = args.get(3) else {
            eprintln!("--replay needs a file");
            std::process::exit(2);
        };
        replay_cli(id, parts, path)
    } else {
        drive(id, "exploration", parts, args[2].as_str(), vec![])
    };
    std::process::exit(code);
}
