//! vcheck <PROPERTY> <quick|thorough>            run the check, write evidence, exit 0/1/2
//! vcheck <PROPERTY> --replay <file>             re-run one saved case, bypassing proptest

#[macro_use]
mod engine;
mod c07_message;
mod c09_iptable;

use engine::*;
use std::sync::Arc;

fn part(check: impl Check + 'static, quick: u64, thorough: u64) -> Part {
    Part {
        check: Arc::new(check),
        quick_cases: quick,
        thorough_cases: thorough,
    }
}

fn parts_for(id: &str) -> Option<Vec<Part>> {
    Some(match id {
        "C07" => vec![part(c07_message::MessageOps, 100_000, 5_000_000)],
        "C09" => vec![
            part(c09_iptable::TableHistories, 50_000, 3_000_000),
            part(c09_iptable::NetArithmetic, 100_000, 5_000_000),
        ],
        _ => return None,
    })
}

fn main() {
    let args: Vec<String> = std::env::args().collect();
    if args.len() < 3 {
        eprintln!("usage: vcheck <PROPERTY> <quick|thorough> | vcheck <PROPERTY> --replay <file>");
        std::process::exit(2);
    }
    silence_stdout();
    install_panic_hook();
    let id = args[1].as_str();
    let Some(parts) = parts_for(id) else {
        eprintln!("unknown property {id}");
        std::process::exit(2);
    };
    let code = if args[2] == "--replay" {
        let Some(path) = args.get(3) else {
            eprintln!("--replay needs a file");
            std::process::exit(2);
        };
        replay_cli(id, parts, path)
    } else {
        drive(id, "exploration", parts, args[2].as_str(), vec![])
    };
    std::process::exit(code);
}
