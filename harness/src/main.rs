//! vcheck <PROPERTY> <quick|thorough>            run the check, write evidence, exit 0/1/2
//! vcheck <PROPERTY> --replay <file>             re-run one saved case, bypassing proptest

#[macro_use]
mod engine;
mod c07_message;
mod c09_iptable;
mod c10_fragment;
mod c11_reassembly;
mod c12_modcmp;
mod c15_ipgen;
mod c15_dhcp;
mod codecs;
mod sim;
mod c05_link;
mod c06_arp;
mod c13_barrier;
mod c14_frames;
mod c16_routing;
mod c20_dns;
mod c04_udp;
mod c02_sockets;
mod ndl;
mod tcb_bench;
mod tcb_checks;

use engine::*;
use std::sync::Arc;

fn part(check: impl Check + 'static, quick: u64, thorough: u64) -> Part {
    Part {
        check: Arc::new(check),
        quick_cases: quick,
        thorough_cases: thorough,
    }
}

fn parts_for(id: &str) -> Option<Vec<Part>> {
    Some(match id {
        "C04" => vec![part(c04_udp::UdpDemux, 20_000, 600_000)],
        "C05" => vec![part(c05_link::LinkLayer, 4_000, 300_000)],
        "C06" => vec![part(c06_arp::ArpResolution, 6_000, 300_000)],
        "C07" => vec![part(c07_message::MessageOps, 400_000, 8_000_000)],
        "C09" => vec![
            part(c09_iptable::TableHistories, 400_000, 6_000_000),
            part(c09_iptable::NetArithmetic, 400_000, 8_000_000),
        ],
        "C08" => vec![part(codecs::Codecs, 600_000, 12_000_000)],
        "C10" => vec![part(c10_fragment::Fragmentation, 150_000, 3_000_000)],
        "C11" => vec![part(c11_reassembly::ReassemblyHistories, 100_000, 2_000_000)],
        "C01" => vec![part(tcb_checks::ReliableStream, 40_000, 3_000_000)],
        "C02" => vec![part(c02_sockets::StreamSockets { multi_thread: false }, 20_000, 600_000), part(c02_sockets::StreamSockets { multi_thread: true }, 640, 20_000)],
        "C03" => vec![part(tcb_checks::OpenClose, 40_000, 3_000_000)],
        "C12" => vec![part(c12_modcmp::ModCmpLaws, 200_000, 4_000_000), part(tcb_checks::IsnIndependence, 20_000, 1_500_000)],
        "C16" => vec![part(c16_routing::Routing, 20_000, 600_000)],
        "C17" => vec![part(tcb_checks::HostileSegments, 60_000, 4_000_000)],
        "C13" => vec![part(c13_barrier::BarrierAndStatus, 6_000, 300_000)],
        "C14" => vec![part(codecs::DecodersNoPanic, 1_000_000, 20_000_000), part(ndl::NdlNoPanic, 100_000, 3_000_000), part(c14_frames::MalformedFrames, 3_000, 200_000)],
        "C19" => vec![part(ndl::NdlRoundTrip, 40_000, 2_000_000), part(ndl::NdlRun, 2_000, 100_000)],
        "C15" => vec![part(c15_ipgen::IpGenHistories, 300_000, 6_000_000), part(c15_dhcp::DhcpLeases, 5_000, 200_000)],
        "C18" => vec![part(codecs::Codecs, 400_000, 8_000_000), part(codecs::CorruptionRejected, 400_000, 8_000_000)],
        "C20" => vec![part(c20_dns::DnsResolution, 20_000, 600_000)],
        _ => return None,
    })
}

fn main() {
    let args: Vec<String> = std::env::args().collect();
    if args.len() < 3 {
        eprintln!("usage: vcheck <PROPERTY> <quick|thorough> | vcheck <PROPERTY> --replay <file>");
        std::process::exit(2);
    }
    silence_stdout();
    install_panic_hook();
    let id = args[1].as_str();
    let Some(parts) = parts_for(id) else {
        eprintln!("unknown property {id}");
        std::process::exit(2);
    };
    let code = if args[2] == "--replay" {
        let Some(path) = args.get(3) else {
            eprintln!("--replay needs a file");
            std::process::exit(2);
        };
        replay_cli(id, parts, path)
    } else {
        drive(id, "exploration", parts, args[2].as_str(), vec![])
    };
    std::process::exit(code);
}
