//! C12 (a): the circular comparison primitives agree with the circular order for all pairs less
//! than 2^31 apart and are mutually consistent.

use crate::engine::*;
use crate::ensure;
use elvis_core::protocols::tcp::verif::verif_cmp::*;
use elvis_core::protocols::tcp::verif::verif_cmp::ModCmp::{Leq, Lt};
use serde_json::json;

pub struct ModCmpLaws;

const HALF: u32 = 1 << 31;

fn gen_a(e: &mut Entropy) -> u32 {
    match e.weighted(&[3, 2, 2, 2]) {
        0 => e.u32(),
        1 => (e.choose(140001) as u32).wrapping_sub(70000),
        2 => HALF.wrapping_add(e.choose(140001) as u32).wrapping_sub(70000),
        _ => u32::MAX.wrapping_sub(e.choose(70000) as u32),
    }
}

fn gen_d(e: &mut Entropy) -> u32 {
    match e.weighted(&[3, 3, 3, 2]) {
        0 => e.choose(4) as u32,
        1 => HALF - 1 - e.choose(4) as u32,
        2 => e.u32() & (HALF - 1),
        _ => e.choose(70000) as u32,
    }
}

impl Check for ModCmpLaws {
    fn id(&self) -> &'static str {
        "C12.cmp"
    }
    fn rule(&self) -> String {
        "generated: per case 32 tuples (a, d, d') with a uniform or within +-70000 of 0 / 2^31 / 2^32 and d, d' < 2^31 dense at {0,1,2,3, 2^31-4..2^31-1}; oracle: with b=a+d: mod_lt(a,b) <=> d!=0, mod_lt(b,a) false, mod_leq(a,b), mod_leq(b,a) <=> d==0, mod_gt(x,y) <=> mod_lt(y,x), mod_geq(x,y) <=> !mod_lt(x,y), leq <=> lt or eq; mod_bounded(a,cmp1,x,cmp2,c) for c=a+d', x=a+any <=> (x-a) lies in the interval given by the two comparison kinds. non-trivial: the tuple has d or d' within 4 of 0 or of 2^31, or a+d wraps past 2^32. distinct: hash of decoded tuples".into()
    }
    fn max_entropy(&self) -> usize {
        32 * 14
    }
    fn run(&self, e: &mut Entropy, ctx: &mut Ctx) -> Result<(), Failure> {
        let mut sample = vec![];
        for t in 0..32 {
            let a = gen_a(e);
            let d = gen_d(e);
            let b = a.wrapping_add(d);
            ctx.sub_evals += 1;
            ensure!(mod_lt(a, b) == (d != 0), "circular_order", "mod_lt", "mod_lt({a},{b}) = {} but b-a = {d}", mod_lt(a, b));
            ensure!(!mod_lt(b, a), "circular_order", "mod_lt_reverse", "mod_lt({b},{a}) true although a-b... b = a+{d}");
            ensure!(mod_leq(a, b), "circular_order", "mod_leq", "mod_leq({a},{b}) false although b = a+{d} (d < 2^31)");
            ensure!(mod_leq(b, a) == (d == 0), "circular_order", "mod_leq_reverse", "mod_leq({b},{a}) = {} with b = a+{d}", mod_leq(b, a));
            ensure!(mod_gt(b, a) == (d != 0) && !mod_gt(a, b), "circular_order", "mod_gt", "mod_gt wrong for a={a}, b=a+{d}");
            ensure!(mod_geq(b, a), "circular_order", "mod_geq", "mod_geq({b},{a}) false although b = a+{d} (d < 2^31)");
            ensure!(mod_geq(a, b) == (d == 0), "circular_order", "mod_geq_reverse", "mod_geq({a},{b}) = {} with b = a+{d}", mod_geq(a, b));
            // mutual consistency on the same pair, both directions
            for (x, y) in [(a, b), (b, a)] {
                ensure!(mod_leq(x, y) == (mod_lt(x, y) || x == y), "consistency", "leq_is_lt_or_eq", "mod_leq({x},{y}) = {} but lt={} eq={}", mod_leq(x, y), mod_lt(x, y), x == y);
                ensure!(mod_gt(x, y) == mod_lt(y, x), "consistency", "gt_is_flipped_lt", "mod_gt({x},{y}) != mod_lt({y},{x})");
                ensure!(mod_geq(x, y) == !mod_lt(x, y), "consistency", "geq_is_not_lt", "mod_geq({x},{y}) = {} but mod_lt = {}", mod_geq(x, y), mod_lt(x, y));
            }
            // bounded
            let d2 = gen_d(e);
            let c = a.wrapping_add(d2);
            let dx = match e.weighted(&[3, 2, 2, 2]) {
                0 => d, // reuse
                1 => d2.wrapping_add(e.choose(5) as u32).wrapping_sub(2),
                2 => (e.choose(5) as u32).wrapping_sub(2),
                _ => e.u32(),
            };
            let x = a.wrapping_add(dx);
            for (c1, c2) in [(Lt, Lt), (Lt, Leq), (Leq, Lt), (Leq, Leq)] {
                let lo_ok = if c1 == Lt { dx > 0 } else { true };
                let hi_ok = if c2 == Lt { dx < d2 } else { dx <= d2 };
                let want = lo_ok && hi_ok;
                let got = mod_bounded(a, c1, x, c2, c);
                ensure!(got == want, "circular_order", "mod_bounded", "mod_bounded({a},{:?},{x},{:?},{c}) = {got}; x-a = {dx}, c-a = {d2}", c1, c2);
                ctx.sub_evals += 1;
            }
            let edge = |v: u32| v < 4 || v >= HALF - 4;
            if edge(d) || edge(d2) || a.checked_add(d).is_none() {
                ctx.nontrivial = true;
            }
            if a.checked_add(d).is_none() {
                ctx.class("wraps_past_2^32");
            }
            if d >= HALF - 4 {
                ctx.class("distance_near_2^31");
            }
            if t < 3 {
                sample.push(json!({"a": a, "d": d, "d2": d2, "x_minus_a": dx}));
            }
        }
        if ctx.want_desc {
            ctx.desc = Some(json!({"first_tuples": sample}));
        }
        Ok(())
    }
}
