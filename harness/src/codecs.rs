//! C08: header codecs round-trip and match the RFC wire formats (differential against etherparse).
//! C14 (a): decoders never panic on arbitrary / mutated bytes.
//! C18: with checksums enabled (second build, feature `checksum`), emitted checksums verify under an
//!      independent RFC 1071 sum and equal etherparse's; corruptions are rejected.

use crate::engine::*;
use crate::{ensure, fail};
use elvis_core::protocols::arp::arp_parsing::{ArpPacket, Operation};
use elvis_core::protocols::dhcp::dhcp_parsing::DhcpMessage;
use elvis_core::protocols::dns::dns_parsing::{DnsHeader, DnsMessage, DnsQuestion, DnsResourceRecord};
use elvis_core::protocols::ipv4::ipv4_parsing::{ControlFlags, Ipv4Header, TypeOfService};
use elvis_core::protocols::ipv4::Ipv4Address;
use elvis_core::protocols::tcp::verif::{Control, TcpHeaderBuilder};
use elvis_core::protocols::tcp::TcpHeader;
use elvis_core::protocols::udp::verif::build_udp_header;
use elvis_core::protocols::udp::UdpHeader;
use serde_json::json;

pub const CHECKSUM_BUILD: bool = cfg!(feature = "checksum");

/// Independent RFC 1071 implementation: one's complement of the one's-complement sum of
/// big-endian 16-bit words, odd byte padded with zero.
pub fn rfc1071(parts: &[&[u8]]) -> u16 {
    let mut sum: u64 = 0;
    let mut all: Vec<u8> = Vec::new();
    for p in parts {
        all.extend_from_slice(p);
    }
    let mut i = 0;
    while i + 1 < all.len() {
        sum += u16::from_be_bytes([all[i], all[i + 1]]) as u64;
        i += 2;
    }
    if i < all.len() {
        sum += (all[i] as u64) << 8;
    }
    while sum >> 16 != 0 {
        sum = (sum & 0xffff) + (sum >> 16);
    }
    !(sum as u16)
}

/// verification: the sum over the data including the checksum field is 0xffff
pub fn rfc1071_verifies(parts: &[&[u8]]) -> bool {
    rfc1071(parts) == 0
}

fn ip(x: u32) -> Ipv4Address {
    Ipv4Address::from(x)
}

pub fn gen_ipv4_header(e: &mut Entropy, rare: &mut bool) -> Ipv4Header {
    let payload_len: u16 = match e.weighted(&[3, 3, 2, 1]) {
        0 => e.choose(100) as u16,
        1 => e.choose(1481) as u16,
        2 => e.choose(65516) as u16,
        _ => 65515 - e.choose(3) as u16,
    };
    let df = e.chance(1, 3);
    let mf = e.chance(1, 3);
    let offset: u16 = if e.chance(1, 2) { 0 } else if e.chance(1, 4) { 8191 - e.choose(3) as u16 } else { e.choose(8192) as u16 };
    if df || mf || offset != 0 || payload_len >= 1 << 15 {
        *rare = true;
    }
    Ipv4Header {
        ihl: 5,
        type_of_service: TypeOfService::from(e.u8() & 0b1111_1100),
        total_length: 20 + payload_len,
        identification: e.u16(),
        fragment_offset: offset,
        flags: ControlFlags::new(!df, !mf),
        time_to_live: e.u8(),
        protocol: e.u8(),
        checksum: 0,
        source: ip(e.u32()),
        destination: ip(e.u32()),
    }
}

fn ep_ipv4(h: &Ipv4Header) -> etherparse::Ipv4Header {
    let mut ep = etherparse::Ipv4Header::new(h.total_length - 20, h.time_to_live, etherparse::IpNumber::Udp, h.source.to_bytes(), h.destination.to_bytes());
    ep.protocol = h.protocol;
    ep.differentiated_services_code_point = h.type_of_service.as_u8() >> 2;
    ep.explicit_congestion_notification = h.type_of_service.as_u8() & 3;
    ep.identification = h.identification;
    ep.dont_fragment = !h.flags.may_fragment();
    ep.more_fragments = !h.flags.is_last_fragment();
    ep.fragments_offset = h.fragment_offset;
    ep
}

fn ipv4_fields_eq(a: &Ipv4Header, b: &Ipv4Header) -> bool {
    a.ihl == b.ihl
        && a.type_of_service == b.type_of_service
        && a.total_length == b.total_length
        && a.identification == b.identification
        && a.fragment_offset == b.fragment_offset
        && a.flags == b.flags
        && a.time_to_live == b.time_to_live
        && a.protocol == b.protocol
        && a.source == b.source
        && a.destination == b.destination
}

fn check_ipv4_value(e: &mut Entropy, ctx: &mut Ctx) -> Result<serde_json::Value, Failure> {
    let mut rare = false;
    let mut h = gen_ipv4_header(e, &mut rare);
    if CHECKSUM_BUILD && e.chance(1, 4) {
        // choose the identification so that the one's-complement sum of the header is 0xffff
        // (a conforming sender then writes checksum 0x0000)
        let mut tmp = h;
        tmp.identification = 0;
        if let Ok(mut z) = tmp.serialize() {
            z[10] = 0;
            z[11] = 0;
            h.identification = rfc1071(&[&z]);
            ctx.class("solved_sum_ffff");
            ctx.nontrivial = true;
        }
    }
    let bytes = guard(|| h.serialize())?.map_err(|err| Failure::new("roundtrip", "ipv4_serialize_err", format!("serialize({h:?}) failed: {err}")))?;
    ensure!(bytes.len() == 20, "roundtrip", "ipv4_len", "IPv4 header is {} bytes", bytes.len());
    let d = guard(|| Ipv4Header::from_bytes(bytes.iter().cloned()))?.map_err(|err| Failure::new("roundtrip", "ipv4_decode_own", format!("decoder rejects own encoding of {h:?}: {err}")))?;
    ensure!(ipv4_fields_eq(&d, &h), "roundtrip", "ipv4_fields", "decode(encode(h)) = {d:?} != {h:?}");
    ensure!(d.checksum == u16::from_be_bytes([bytes[10], bytes[11]]), "roundtrip", "ipv4_checksum_field", "decoded checksum field differs from the wire");
    // differential
    let ep = ep_ipv4(&h);
    let mut epb = Vec::new();
    ep.write(&mut epb).map_err(|err| Failure::new("harness", "etherparse_write", format!("{err:?}")))?;
    let mut ours = bytes.clone();
    if !CHECKSUM_BUILD {
        epb[10] = 0;
        epb[11] = 0;
    } else {
        // +-0: compare modulo the two representations of zero
        let (a, b) = (u16::from_be_bytes([ours[10], ours[11]]), u16::from_be_bytes([epb[10], epb[11]]));
        ensure!(rfc1071_verifies(&[&ours]), "checksum_valid", "ipv4_emitted", "emitted IPv4 header checksum {a:#06x} does not verify under RFC 1071: {}", hex(&ours));
        if a != b {
            ensure!((a == 0xffff && b == 0) || (a == 0 && b == 0xffff), "differential", "ipv4_checksum_vs_etherparse", "checksum {a:#06x} vs etherparse {b:#06x}");
            ctx.class("plus_minus_zero_checksum");
            ours[10] = epb[10];
            ours[11] = epb[11];
        }
    }
    ensure!(ours == epb, "differential", "ipv4_bytes", "encoding differs from etherparse: {} vs {}", hex(&ours), hex(&epb));
    let d2 = guard(|| Ipv4Header::from_bytes(epb.iter().cloned()))?.map_err(|err| Failure::new("differential", "ipv4_rejects_reference", format!("decoder rejects etherparse's bytes {}: {err}", hex(&epb))))?;
    ensure!(ipv4_fields_eq(&d2, &h), "differential", "ipv4_fields_from_reference", "fields from etherparse bytes {d2:?} != {h:?}");
    // etherparse decodes ours
    let mut padded = bytes.clone();
    padded.resize(20 + 8, 0);
    match etherparse::Ipv4HeaderSlice::from_slice(&padded) {
        Ok(s) => {
            ensure!(
                s.total_len() == h.total_length && s.identification() == h.identification && s.fragments_offset() == h.fragment_offset && s.dont_fragment() != h.flags.may_fragment() && s.more_fragments() != h.flags.is_last_fragment() && s.ttl() == h.time_to_live && s.protocol() == h.protocol && s.source() == h.source.to_bytes() && s.destination() == h.destination.to_bytes() && (s.dcp() << 2 | s.ecn()) == h.type_of_service.as_u8(),
                "differential", "ipv4_reference_reads_other_fields", "etherparse reads different fields from {}", hex(&bytes)
            );
        }
        Err(err) => fail!("differential", "ipv4_reference_rejects", "etherparse rejects our bytes {}: {err:?}", hex(&bytes)),
    }
    if rare {
        ctx.nontrivial = true;
    }
    Ok(json!({"codec": "ipv4", "header": format!("{h:?}")}))
}

fn check_ipv4_raw(e: &mut Entropy, ctx: &mut Ctx) -> Result<serde_json::Value, Failure> {
    // a valid header with mutated fields, so that the decoder gets past its early checks
    let mut rare = false;
    let h = gen_ipv4_header(e, &mut rare);
    let mut bytes = h.serialize().unwrap_or_else(|_| vec![0x45; 20]);
    let nmut = e.choose(4);
    for _ in 0..nmut {
        let i = e.choose(20);
        match e.choose(3) {
            0 => bytes[i] = e.u8(),
            1 => bytes[i] ^= 1 << e.choose(8),
            _ => bytes[i] = *e.pick(&[0u8, 1, 0x13, 0x14, 0x15, 0xff]),
        }
    }
    if e.chance(1, 8) {
        bytes.extend(e.bytes(8));
    }
    match guard(|| Ipv4Header::from_bytes(bytes.iter().cloned()))? {
        Ok(d) => {
            let re = guard(|| d.serialize())?;
            match re {
                Ok(re) => {
                    let mut want = bytes[..20].to_vec();
                    if CHECKSUM_BUILD {
                        // the checksum field is recomputed; equal unless +-0
                        let (a, b) = (u16::from_be_bytes([re[10], re[11]]), u16::from_be_bytes([want[10], want[11]]));
                        if (a == 0xffff && b == 0) || (a == 0 && b == 0xffff) {
                            want[10] = re[10];
                            want[11] = re[11];
                        }
                    }
                    ensure!(re == want, "reencode", "ipv4_bytes", "accepted {} but re-encoding gives {}", hex(&bytes[..20]), hex(&re));
                }
                Err(err) => fail!("reencode", "ipv4_serialize_err", "accepted {} but serialize fails: {err}", hex(&bytes[..20])),
            }
            ctx.class("raw_accepted");
            if nmut > 0 {
                ctx.nontrivial = true;
            }
        }
        Err(_) => ctx.class("raw_rejected"),
    }
    Ok(json!({"codec": "ipv4_raw", "bytes": hex(&bytes)}))
}

fn gen_payload(e: &mut Entropy, max: usize) -> Vec<u8> {
    let n = match e.weighted(&[3, 4, 2, 1, 1]) {
        0 => e.choose(4),
        1 => e.choose(64),
        2 => e.choose(1500),
        3 => e.choose(max + 1),
        _ => max - e.choose(2),
    };
    let seed = e.u8();
    let kind = e.choose(3);
    (0..n)
        .map(|i| match kind {
            0 => seed.wrapping_add(i as u8),
            1 => 0xff,
            _ => (i as u8).wrapping_mul(seed | 1),
        })
        .collect()
}

fn check_udp(e: &mut Entropy, ctx: &mut Ctx) -> Result<serde_json::Value, Failure> {
    let (src, dst) = (e.u32(), e.u32());
    let (sp, dp) = (e.u16(), e.u16());
    let mut payload = gen_payload(e, 65527);
    if CHECKSUM_BUILD && payload.len() >= 2 && payload.len() % 2 == 0 && e.chance(1, 3) {
        let n = payload.len();
        payload[n - 2] = 0;
        payload[n - 1] = 0;
        let mut z = Vec::new();
        z.extend_from_slice(&sp.to_be_bytes());
        z.extend_from_slice(&dp.to_be_bytes());
        z.extend_from_slice(&((8 + n) as u16).to_be_bytes());
        z.extend_from_slice(&[0, 0]);
        let ps = pseudo_header(src, dst, 17, (8 + n) as u16);
        let fill = rfc1071(&[&ps, &z, &payload]);
        payload[n - 2..].copy_from_slice(&fill.to_be_bytes());
        ctx.class("solved_sum_ffff");
        ctx.nontrivial = true;
    }
    let hdr = guard(|| build_udp_header(ip(src), sp, ip(dst), dp, payload.iter().cloned(), payload.len()))?
        .map_err(|err| Failure::new("roundtrip", "udp_build_err", format!("build_udp_header failed for {} bytes: {err}", payload.len())))?;
    ensure!(hdr.len() == 8, "roundtrip", "udp_len", "UDP header is {} bytes", hdr.len());
    let mut packet = hdr.clone();
    packet.extend_from_slice(&payload);
    let d = guard(|| UdpHeader::from_bytes_ipv4(packet.iter().cloned(), packet.len(), ip(src), ip(dst)))?
        .map_err(|err| Failure::new("roundtrip", "udp_decode_own", format!("decoder rejects own encoding ({} payload bytes): {err}", payload.len())))?;
    ensure!(d.source == sp && d.destination == dp && d.length as usize == 8 + payload.len(), "roundtrip", "udp_fields", "decoded {d:?} for sp={sp} dp={dp} len={}", payload.len());
    ensure!(d.checksum == u16::from_be_bytes([hdr[6], hdr[7]]), "roundtrip", "udp_checksum_field", "decoded checksum differs from wire");
    // differential
    let ep = if CHECKSUM_BUILD {
        let eph = etherparse::Ipv4Header::new(0, 0, etherparse::IpNumber::Udp, src.to_be_bytes(), dst.to_be_bytes());
        etherparse::UdpHeader::with_ipv4_checksum(sp, dp, &eph, &payload)
    } else {
        etherparse::UdpHeader::without_ipv4_checksum(sp, dp, payload.len())
    }
    .map_err(|err| Failure::new("harness", "etherparse_udp", format!("{err:?}")))?;
    let epb = ep.to_bytes().to_vec();
    if CHECKSUM_BUILD {
        let pseudo = pseudo_header(src, dst, 17, packet.len() as u16);
        let a = u16::from_be_bytes([hdr[6], hdr[7]]);
        ensure!(a != 0, "checksum_valid", "udp_zero_means_none", "emitted UDP checksum is 0 (means 'no checksum')");
        ensure!(rfc1071_verifies(&[&pseudo, &packet]) , "checksum_valid", "udp_emitted", "emitted UDP checksum {a:#06x} does not verify (payload {} bytes)", payload.len());
        if payload.len() % 2 == 1 {
            ctx.class("odd_length");
            ctx.nontrivial = true;
        }
        if a == 0xffff {
            ctx.class("plus_minus_zero_checksum");
            ctx.nontrivial = true;
        }
    }
    ensure!(hdr == epb, "differential", "udp_bytes", "UDP header {} vs etherparse {}", hex(&hdr), hex(&epb));
    let mut p2 = epb.clone();
    p2.extend_from_slice(&payload);
    let d2 = guard(|| UdpHeader::from_bytes_ipv4(p2.iter().cloned(), p2.len(), ip(src), ip(dst)))?
        .map_err(|err| Failure::new("differential", "udp_rejects_reference", format!("decoder rejects etherparse's packet: {err}")))?;
    ensure!(d2.source == sp && d2.destination == dp, "differential", "udp_fields_from_reference", "fields differ");
    if payload.len() >= (1 << 15) || payload.is_empty() {
        ctx.nontrivial = true;
    }
    if sp == 0 || dp == 0 || sp > 0xff00 {
        ctx.nontrivial = true;
    }
    // raw direction: mutate the length field / truncate
    let mut raw = packet.clone();
    let how = e.choose(4);
    match how {
        0 => {}
        1 => {
            let l = e.choose(raw.len() + 1);
            raw.truncate(l)
        }
        2 => {
            let v = (raw.len() as i64 + e.choose(5) as i64 - 2).clamp(0, 65535) as u16;
            if raw.len() >= 6 {
                raw[4..6].copy_from_slice(&v.to_be_bytes());
            }
        }
        _ => raw.extend({ let n = 1 + e.choose(3); e.bytes(n) }),
    }
    if let Ok(d3) = guard(|| UdpHeader::from_bytes_ipv4(raw.iter().cloned(), raw.len(), ip(src), ip(dst)))? {
        let rest = &raw[8..];
        let re = guard(|| build_udp_header(ip(src), d3.source, ip(dst), d3.destination, rest.iter().cloned(), rest.len()))?
            .map_err(|err| Failure::new("reencode", "udp_build_err", format!("accepted but cannot rebuild: {err}")))?;
        ensure!(re == raw[..8], "reencode", "udp_bytes", "accepted {} but re-encoding gives {}", hex(&raw[..8]), hex(&re));
        ctx.class("raw_accepted");
    } else {
        ctx.class("raw_rejected");
    }
    Ok(json!({"codec": "udp", "sp": sp, "dp": dp, "payload_len": payload.len()}))
}

pub fn pseudo_header(src: u32, dst: u32, proto: u8, len: u16) -> Vec<u8> {
    let mut v = Vec::with_capacity(12);
    v.extend_from_slice(&src.to_be_bytes());
    v.extend_from_slice(&dst.to_be_bytes());
    v.push(0);
    v.push(proto);
    v.extend_from_slice(&len.to_be_bytes());
    v
}

fn check_tcp(e: &mut Entropy, ctx: &mut Ctx) -> Result<serde_json::Value, Failure> {
    let (src, dst) = (e.u32(), e.u32());
    let (sp, dp) = (e.u16(), e.u16());
    let seq = e.u32();
    let flags = e.choose(64) as u8;
    let (fin, syn, rst, psh, ackf, urgf) = (flags & 1 != 0, flags & 2 != 0, flags & 4 != 0, flags & 8 != 0, flags & 16 != 0, flags & 32 != 0);
    let ack = if ackf || e.chance(1, 4) { e.u32() } else { 0 };
    let urg = if urgf || e.chance(1, 4) { e.u16() } else { 0 };
    let wnd = e.u16();
    let mut payload = gen_payload(e, 65515);
    if CHECKSUM_BUILD && payload.len() >= 2 && payload.len() % 2 == 0 && e.chance(1, 3) {
        // solve the last payload word so that the sum over pseudo header, header and text is 0xffff
        let n = payload.len();
        payload[n - 2] = 0;
        payload[n - 1] = 0;
        let z = TcpHeader { src_port: sp, dst_port: dp, seq, ack, data_offset: 5, ctl: Control::new(urgf, ackf, psh, rst, syn, fin), wnd, urg, checksum: 0 };
        let ps = pseudo_header(src, dst, 6, (20 + n) as u16);
        let fill = rfc1071(&[&ps, &z.serialize(), &payload]);
        payload[n - 2..].copy_from_slice(&fill.to_be_bytes());
        ctx.class("solved_sum_ffff");
        ctx.nontrivial = true;
    }
    // builder route (sets what the builder can express)
    let mut b = TcpHeaderBuilder::new(sp, dp, seq).wnd(wnd);
    let builder_expressible = (ackf || ack == 0) && (urgf || urg == 0);
    if ackf {
        b = b.ack(ack);
    }
    if urgf {
        b = b.urg(urg);
    }
    if psh {
        b = b.psh();
    }
    if rst {
        b = b.rst();
    }
    if syn {
        b = b.syn();
    }
    if fin {
        b = b.fin();
    }
    let built = guard(|| b.build(ip(src), ip(dst), payload.iter().cloned(), payload.len()))?
        .map_err(|err| Failure::new("roundtrip", "tcp_build_err", format!("build failed with {} payload bytes: {err}", payload.len())))?;
    // direct route: any field combination
    let direct = TcpHeader {
        src_port: sp,
        dst_port: dp,
        seq,
        ack,
        data_offset: 5,
        ctl: Control::new(urgf, ackf, psh, rst, syn, fin),
        wnd,
        urg,
        checksum: built.checksum,
    };
    let header = if builder_expressible {
        ensure!(built.src_port == sp && built.dst_port == dp && built.seq == seq && built.ack == ack && built.wnd == wnd && built.urg == urg && built.data_offset == 5 && u8::from(built.ctl) == flags, "roundtrip", "tcp_builder_fields", "builder produced {built:?} for flags {flags:#x}");
        built
    } else {
        let mut d = direct;
        if CHECKSUM_BUILD {
            // compute the checksum independently for field combinations the builder cannot express
            let mut tmp = d;
            tmp.checksum = 0;
            let hb = tmp.serialize();
            let pseudo = pseudo_header(src, dst, 6, (20 + payload.len()) as u16);
            d.checksum = rfc1071(&[&pseudo, &hb, &payload]);
        }
        d
    };
    let hb = guard(|| header.serialize())?;
    ensure!(hb.len() == 20, "roundtrip", "tcp_len", "TCP header is {} bytes", hb.len());
    let mut packet = hb.clone();
    packet.extend_from_slice(&payload);
    let dec = guard(|| TcpHeader::from_bytes(packet.iter().cloned(), packet.len(), ip(src), ip(dst)))?;
    let dec = match dec {
        Ok(d) => d,
        Err(err) => {
            if CHECKSUM_BUILD && !builder_expressible {
                // +-0 representation chosen by our independent sum may differ (0x0000 vs 0xffff)
                fail!("checksum_accept", "tcp_rejects_reference_checksum", "decoder rejects a packet with an independently computed RFC 1071 checksum {:#06x}: {err}", header.checksum);
            }
            fail!("roundtrip", "tcp_decode_own", "decoder rejects own encoding {}: {err}", hex(&hb));
        }
    };
    ensure!(dec.src_port == sp && dec.dst_port == dp && dec.seq == seq && dec.ack == ack && dec.wnd == wnd && dec.urg == urg && dec.data_offset == 5 && u8::from(dec.ctl) == flags && dec.checksum == header.checksum, "roundtrip", "tcp_fields", "decode(encode) = {dec:?}, expected flags {flags:#x} seq {seq} ack {ack} wnd {wnd} urg {urg}");
    // differential
    let mut ep = etherparse::TcpHeader::new(sp, dp, seq, wnd);
    ep.acknowledgment_number = ack;
    ep.fin = fin;
    ep.syn = syn;
    ep.rst = rst;
    ep.psh = psh;
    ep.ack = ackf;
    ep.urg = urgf;
    ep.urgent_pointer = urg;
    if CHECKSUM_BUILD {
        ep.checksum = ep.calc_checksum_ipv4_raw(src.to_be_bytes(), dst.to_be_bytes(), &payload).map_err(|err| Failure::new("harness", "etherparse_tcp", format!("{err:?}")))?;
        let pseudo = pseudo_header(src, dst, 6, packet.len() as u16);
        ensure!(rfc1071_verifies(&[&pseudo, &packet]), "checksum_valid", "tcp_emitted", "emitted TCP checksum {:#06x} does not verify (payload {} bytes, flags {flags:#x})", header.checksum, payload.len());
        if payload.len() % 2 == 1 {
            ctx.class("odd_length");
            ctx.nontrivial = true;
        }
        let (a, bsum) = (header.checksum, ep.checksum);
        if a != bsum {
            ensure!((a == 0xffff && bsum == 0) || (a == 0 && bsum == 0xffff), "differential", "tcp_checksum_vs_etherparse", "checksum {a:#06x} vs etherparse {bsum:#06x}");
            ctx.class("plus_minus_zero_checksum");
            ctx.nontrivial = true;
        }
    } else {
        ep.checksum = header.checksum;
    }
    let mut epb = Vec::new();
    ep.write(&mut epb).map_err(|err| Failure::new("harness", "etherparse_write", format!("{err:?}")))?;
    let mut ours = hb.clone();
    if CHECKSUM_BUILD {
        ours[16] = epb[16];
        ours[17] = epb[17];
    }
    ensure!(ours == epb, "differential", "tcp_bytes", "TCP header {} vs etherparse {}", hex(&hb), hex(&epb));
    let mut p2 = epb.clone();
    p2.extend_from_slice(&payload);
    match guard(|| TcpHeader::from_bytes(p2.iter().cloned(), p2.len(), ip(src), ip(dst)))? {
        Ok(d2) => ensure!(d2.seq == seq && d2.ack == ack && u8::from(d2.ctl) == flags && d2.wnd == wnd && d2.urg == urg, "differential", "tcp_fields_from_reference", "fields differ: {d2:?}"),
        Err(err) => fail!(if CHECKSUM_BUILD { "checksum_accept" } else { "differential" }, "tcp_rejects_reference", "decoder rejects etherparse's packet (checksum {:#06x}): {err}", ep.checksum),
    }
    if rst || syn || fin || urgf || urg != 0 || payload.len() >= 1 << 15 {
        ctx.nontrivial = true;
    }
    // raw direction
    let mut raw = packet.clone();
    let nmut = e.choose(3);
    for _ in 0..nmut {
        let i = e.choose(20.min(raw.len()));
        raw[i] = match e.choose(3) {
            0 => e.u8(),
            1 => raw[i] ^ (1 << e.choose(8)),
            _ => *e.pick(&[0x50u8, 0x5f, 0x60, 0x40, 0xff, 0]),
        };
    }
    // reserved bits (byte 12 low nibble, byte 13 top two bits) are decoded and discarded: known
    // finding tcp_reserved_bits_not_preserved; excluded by construction unless the entropy asks
    // (in the checksum build, where this check serves C18, the bits are always cleared: the finding belongs to C08's
    // re-encode clause and is reported there)
    let lift = ctx.strict || e.chance(1, 16);
    let keep_reserved = lift && !CHECKSUM_BUILD;
    if !keep_reserved && (raw[12] & 0x0f != 0 || raw[13] & 0xc0 != 0) {
        raw[12] &= 0xf0;
        raw[13] &= 0x3f;
        ctx.excluded += 1;
    }
    if let Ok(d3) = guard(|| TcpHeader::from_bytes(raw.iter().cloned(), raw.len(), ip(src), ip(dst)))? {
        let re = guard(|| d3.serialize())?;
        if re != raw[..20] {
            let mut masked = raw[..20].to_vec();
            masked[12] &= 0xf0;
            masked[13] &= 0x3f;
            if re == masked {
                fail!("reencode", "tcp_reserved_bits_not_preserved", "accepted {} but re-encoding gives {} (reserved / ECN bits dropped)", hex(&raw[..20]), hex(&re));
            }
            fail!("reencode", "tcp_bytes", "accepted {} but re-encoding gives {}", hex(&raw[..20]), hex(&re));
        }
        ctx.class("raw_accepted");
    } else {
        ctx.class("raw_rejected");
    }
    Ok(json!({"codec": "tcp", "flags": flags, "seq": seq, "ack": ack, "wnd": wnd, "urg": urg, "payload_len": payload.len()}))
}

fn check_arp(e: &mut Entropy, ctx: &mut Ctx) -> Result<serde_json::Value, Failure> {
    let mac = |e: &mut Entropy| -> u64 {
        match e.choose(4) {
            0 => e.choose(16) as u64,
            1 => 0xffff_ffff_ffff - e.choose(3) as u64,
            _ => e.u64() & 0xffff_ffff_ffff,
        }
    };
    let p = ArpPacket {
        htype: if e.bool() { 1 } else { e.u16() },
        ptype: if e.bool() { 0x0800 } else { e.u16() },
        hlen: if e.bool() { 6 } else { e.u8() },
        plen: if e.bool() { 4 } else { e.u8() },
        oper: if e.bool() { Operation::Request } else { Operation::Reply },
        sender_mac: mac(e),
        sender_ip: ip(e.u32()),
        target_mac: mac(e),
        target_ip: ip(e.u32()),
    };
    let bytes = guard(|| p.build())?;
    ensure!(bytes.len() == 28, "roundtrip", "arp_len", "ARP packet is {} bytes", bytes.len());
    let d = guard(|| ArpPacket::from_bytes(bytes.iter().cloned()))?.map_err(|err| Failure::new("roundtrip", "arp_decode_own", format!("decoder rejects own encoding: {err}")))?;
    ensure!(d == p, "roundtrip", "arp_fields", "decode(encode(p)) = {d:?} != {p:?}");
    // wire layout (RFC 826, Ethernet/IPv4): independent reference encoding
    let mut want = Vec::new();
    want.extend_from_slice(&p.htype.to_be_bytes());
    want.extend_from_slice(&p.ptype.to_be_bytes());
    want.push(p.hlen);
    want.push(p.plen);
    want.extend_from_slice(&(if p.oper == Operation::Request { 1u16 } else { 2u16 }).to_be_bytes());
    want.extend_from_slice(&p.sender_mac.to_be_bytes()[2..]);
    want.extend_from_slice(&p.sender_ip.to_bytes());
    want.extend_from_slice(&p.target_mac.to_be_bytes()[2..]);
    want.extend_from_slice(&p.target_ip.to_bytes());
    ensure!(bytes == want, "wire_format", "arp_bytes", "ARP encoding {} differs from the RFC 826 layout {}", hex(&bytes), hex(&want));
    if p.sender_mac >> 40 != 0 || p.target_mac >> 40 != 0 {
        ctx.nontrivial = true;
    }
    // raw
    let mut raw = bytes.clone();
    for _ in 0..e.choose(3) {
        let i = e.choose(raw.len());
        raw[i] = e.u8();
    }
    if e.chance(1, 6) {
        let l = e.choose(raw.len() + 1);
        raw.truncate(l);
    }
    if let Ok(d2) = guard(|| ArpPacket::from_bytes(raw.iter().cloned()))? {
        let re = guard(|| d2.build())?;
        ensure!(re == raw[..28], "reencode", "arp_bytes", "accepted {} but re-encoding gives {}", hex(&raw), hex(&re));
        ctx.class("raw_accepted");
    } else {
        ctx.class("raw_rejected");
    }
    Ok(json!({"codec": "arp", "packet": format!("{p:?}")}))
}

fn gen_name(e: &mut Entropy, forbidden: u8) -> Vec<u8> {
    let n = match e.weighted(&[1, 5, 2]) {
        0 => 0,
        1 => 1 + e.choose(20),
        _ => 1 + e.choose(200),
    };
    let kind = e.choose(3);
    (0..n)
        .map(|_| {
            let mut b = match kind {
                0 => b'a' + e.choose(26) as u8,
                1 => 33 + e.choose(94) as u8,
                _ => e.u8(),
            };
            if b == forbidden {
                b = b.wrapping_add(1);
            }
            b
        })
        .collect()
}

fn check_dns(e: &mut Entropy, ctx: &mut Ctx) -> Result<serde_json::Value, Failure> {
    let qname = gen_name(e, b' ');
    let aname = if e.bool() { qname.clone() } else { gen_name(e, b' ') };
    let header = DnsHeader {
        id: e.u16(),
        properties: if e.bool() { 0x8000 } else { e.u16() },
        qdcount: if e.bool() { 0 } else { e.u16() },
        ancount: if e.bool() { 0 } else { e.u16() },
        nscount: if e.bool() { 0 } else { e.u16() },
        arcount: if e.bool() { 0 } else { e.u16() },
    };
    let (id, props, qd, an, ns, ar) = (header.id, header.properties, header.qdcount, header.ancount, header.nscount, header.arcount);
    let ttl = e.u32();
    let addr = e.u32();
    let msg = DnsMessage::new(header, DnsQuestion::new(qname.clone()), DnsResourceRecord::new(aname.clone(), ttl, ip(addr)))
        .map_err(|err| Failure::new("roundtrip", "dns_new", format!("{err}")))?;
    let wire = guard(|| msg.to_message())?.map_err(|err| Failure::new("roundtrip", "dns_encode", format!("{err}")))?.to_vec();
    let d = guard(|| DnsMessage::from_bytes(wire.iter().cloned()))?.map_err(|err| Failure::new("roundtrip", "dns_decode_own", format!("decoder rejects own encoding {}: {err}", hex(&wire))))?;
    ensure!(d.header.id == id && d.header.properties == props && d.header.qdcount == qd && d.header.ancount == an && d.header.nscount == ns && d.header.arcount == ar, "roundtrip", "dns_header", "header fields differ");
    ensure!(d.question.qname == qname && d.answer.name == aname && d.answer.ttl == ttl && d.answer.rdata == addr.to_be_bytes() && d.answer.rec_type == 1, "roundtrip", "dns_fields", "question/answer fields differ: qname {:?} name {:?} ttl {} rdata {:?}", d.question.qname, d.answer.name, d.answer.ttl, d.answer.rdata);
    let re = guard(|| d.to_message())?.map_err(|err| Failure::new("roundtrip", "dns_reencode", format!("{err}")))?.to_vec();
    ensure!(re == wire, "roundtrip", "dns_bytes", "re-encoding differs");
    if qname.len() > 26 || qname.iter().any(|b| *b >= 0x80) || qname.is_empty() {
        ctx.nontrivial = true;
    }
    // raw: mutate, truncate, extend
    let mut raw = wire.clone();
    for _ in 0..e.choose(4) {
        let i = e.choose(raw.len());
        raw[i] = if e.bool() { b' ' } else { e.u8() };
    }
    if e.chance(1, 5) {
        let l = e.choose(raw.len() + 1);
        raw.truncate(l);
    }
    if e.chance(1, 5) {
        raw.extend({ let n = 1 + e.choose(4); e.bytes(n) });
    }
    if let Ok(d2) = guard(|| DnsMessage::from_bytes(raw.iter().cloned()))? {
        let re2 = guard(|| d2.to_message())?.map_err(|err| Failure::new("reencode", "dns_encode", format!("{err}")))?.to_vec();
        ensure!(raw.len() >= re2.len() && re2 == raw[..re2.len()], "reencode", "dns_bytes", "accepted {} but re-encoding gives {}", hex(&raw), hex(&re2));
        ctx.class("raw_accepted");
    } else {
        ctx.class("raw_rejected");
    }
    Ok(json!({"codec": "dns", "qname_len": qname.len(), "id": id}))
}

/// our own encoding of the DHCP layout used by the repository (documented by its decoder)
pub fn dhcp_wire(fixed: &[u8; 29], msg_type: u8, server_name: &[u8], boot_file: &[u8]) -> Vec<u8> {
    let mut v = fixed.to_vec();
    v.push(msg_type);
    v.extend_from_slice(server_name);
    v.push(0);
    v.extend_from_slice(boot_file);
    v.push(0);
    v
}

fn gen_utf8_no_nul(e: &mut Entropy) -> String {
    let n = match e.weighted(&[1, 4, 1]) {
        0 => 0,
        1 => 1 + e.choose(16),
        _ => 1 + e.choose(100),
    };
    (0..n)
        .map(|_| match e.choose(4) {
            0 => (b'a' + e.choose(26) as u8) as char,
            1 => (33 + e.choose(94) as u8) as char,
            2 => char::from_u32(0xa1 + e.choose(0x500) as u32).unwrap_or('x'),
            _ => *e.pick(&['é', '世', '𝄞', ' ', '\t', '\u{7f}']),
        })
        .collect()
}

fn check_dhcp(e: &mut Entropy, ctx: &mut Ctx) -> Result<serde_json::Value, Failure> {
    let mut fixed = [0u8; 29];
    let fb = e.bytes(29);
    fixed.copy_from_slice(&fb);
    let t = 1 + e.choose(7) as u8;
    let sname = gen_utf8_no_nul(e);
    let bfile = gen_utf8_no_nul(e);
    let wire = dhcp_wire(&fixed, t, sname.as_bytes(), bfile.as_bytes());
    let d = guard(|| DhcpMessage::from_bytes(wire.iter().cloned()))?.map_err(|err| Failure::new("roundtrip", "dhcp_decode", format!("decoder rejects a well-formed message (type {t}): {err}")))?;
    ensure!(d.op == fixed[0] && d.your_ip.to_bytes() == fixed[15..19] && d.msg_type as u8 == t, "roundtrip", "dhcp_public_fields", "public fields differ from the wire");
    let d = guard(|| DhcpMessage::from_bytes(wire.iter().cloned()))?.unwrap();
    let re = guard(|| DhcpMessage::to_message(d))?.map_err(|err| Failure::new("reencode", "dhcp_encode", format!("{err}")))?.to_vec();
    ensure!(re == wire, "reencode", "dhcp_bytes", "accepted {} but re-encoding gives {}", hex(&wire), hex(&re));
    // value round trip: decode(encode(v)) == v for the value v just decoded
    let v1 = guard(|| DhcpMessage::from_bytes(wire.iter().cloned()))?.unwrap();
    let v2 = guard(|| DhcpMessage::from_bytes(re.iter().cloned()))?.map_err(|err| Failure::new("roundtrip", "dhcp_decode_own", format!("{err}")))?;
    ensure!(v1 == v2, "roundtrip", "dhcp_value", "decode(encode(v)) != v: {v2:?} vs {v1:?}");
    // trailing bytes are not consumed
    if e.chance(1, 4) {
        let mut longer = wire.clone();
        longer.extend({ let n = 1 + e.choose(5); e.bytes(n) });
        if let Ok(d3) = guard(|| DhcpMessage::from_bytes(longer.iter().cloned()))? {
            let re3 = guard(|| DhcpMessage::to_message(d3))?.unwrap().to_vec();
            ensure!(re3 == wire, "reencode", "dhcp_bytes_prefix", "trailing bytes changed the decoded value");
        }
    }
    // a message cut short: whatever the decoder accepts must re-encode to bytes it consumed, i.e. to a prefix of what it was given
    if e.chance(1, 3) {
        let k = e.choose(wire.len());
        let cut = &wire[..k];
        if let Ok(d4) = guard(|| DhcpMessage::from_bytes(cut.iter().cloned()))? {
            let re4 = guard(|| DhcpMessage::to_message(d4))?.map_err(|err| Failure::new("reencode", "dhcp_encode", format!("{err}")))?.to_vec();
            ensure!(re4.len() <= cut.len() && re4[..] == cut[..re4.len()], "reencode", "dhcp_truncated_accepted", "the decoder accepted the first {k} bytes {} of a {}-byte message but re-encoding the value gives {} ({} bytes): not what was consumed", hex(cut), wire.len(), hex(&re4), re4.len());
        }
        ctx.class("dhcp_truncated_input");
    }
    if t != 1 || !sname.is_ascii() || sname.is_empty() {
        ctx.nontrivial = true;
    }
    Ok(json!({"codec": "dhcp", "type": t, "server_name": sname, "boot_file": bfile}))
}

pub struct Codecs;

impl Check for Codecs {
    fn id(&self) -> &'static str {
        if CHECKSUM_BUILD {
            "C18.codecs"
        } else {
            "C08"
        }
    }
    fn rule(&self) -> String {
        format!("build: {}. generated: one codec per case (IPv4 value / IPv4 mutated bytes / UDP / TCP / ARP / DNS / DHCP) with full-range fields (all 64 TCP flag sets, ack/urg values with and without their flags, fragment offsets 0..=8191, DF/MF, payload lengths 0..=65515/65527, 48-bit MACs, DNS names without 0x20, DHCP types 1..=7 and UTF-8 strings without NUL); oracles: decode(encode(v))==v, accepted bytes re-encode to the consumed prefix (valid packets with 0..3 mutated header bytes, truncations, extensions), IPv4/UDP/TCP bytes equal etherparse 0.10's for the same fields and our decoders accept etherparse's bytes, ARP bytes equal an independent RFC 826 layout{}. non-trivial: a rarely varied field is non-default (offset, DF/MF, RST/SYN/FIN/URG, urgent pointer, high MAC bits, length >= 2^15 or 0, odd lengths and +-0 sums in the checksum build, non-ASCII names). distinct: hash of decoded case", if CHECKSUM_BUILD { "compute_checksum ON" } else { "default (checksums compiled out, fields are 0)" }, if CHECKSUM_BUILD { "; emitted checksums verify under an independent RFC 1071 sum incl. pseudo header and equal etherparse's modulo +-0" } else { "" })
    }
    fn assumptions(&self) -> Vec<String> {
        vec![
            "etherparse 0.10.1 is the independent implementation of RFC 791/768/9293 wire formats".into(),
            "TCP raw bytes keep the reserved/ECN bits clear in 15/16 of the cases because an open known finding covers them (counted in excluded_by_construction)".into(),
        ]
    }
    fn max_entropy(&self) -> usize {
        400
    }
    fn run(&self, e: &mut Entropy, ctx: &mut Ctx) -> Result<(), Failure> {
        let which = e.choose(7);
        let d = match which {
            0 => {
                ctx.class("ipv4");
                check_ipv4_value(e, ctx)?
            }
            1 => {
                ctx.class("ipv4_raw");
                check_ipv4_raw(e, ctx)?
            }
            2 => {
                ctx.class("udp");
                check_udp(e, ctx)?
            }
            3 => {
                ctx.class("tcp");
                check_tcp(e, ctx)?
            }
            4 => {
                ctx.class("arp");
                check_arp(e, ctx)?
            }
            5 => {
                ctx.class("dns");
                check_dns(e, ctx)?
            }
            _ => {
                ctx.class("dhcp");
                check_dhcp(e, ctx)?
            }
        };
        if ctx.want_desc {
            ctx.desc = Some(d);
        }
        Ok(())
    }
}

// ------------------------------------------------------------------------------------------------
// C14 (a): no byte string makes a decoder panic

pub struct DecodersNoPanic;

fn valid_packet(e: &mut Entropy, which: usize) -> Vec<u8> {
    match which {
        0 => {
            let mut r = false;
            gen_ipv4_header(e, &mut r).serialize().unwrap_or_default()
        }
        1 => {
            let p = gen_payload(e, 200);
            let mut h = build_udp_header(ip(1), e.u16(), ip(2), e.u16(), p.iter().cloned(), p.len()).unwrap_or_default();
            h.extend(p);
            h
        }
        2 => {
            let p = gen_payload(e, 200);
            let mut h = TcpHeaderBuilder::new(e.u16(), e.u16(), e.u32()).wnd(e.u16()).build(ip(1), ip(2), p.iter().cloned(), p.len()).map(|h| h.serialize()).unwrap_or_default();
            h.extend(p);
            h
        }
        3 => ArpPacket::new_request(e.u64() & 0xffff_ffff_ffff, ip(e.u32()), ip(e.u32())).build(),
        4 => {
            let n = gen_name(e, b' ');
            DnsMessage::new(DnsHeader { id: e.u16(), properties: 0, qdcount: 0, ancount: 0, nscount: 0, arcount: 0 }, DnsQuestion::new(n.clone()), DnsResourceRecord::new(n, e.u32(), ip(e.u32())))
                .ok()
                .and_then(|m| m.to_message().ok())
                .map(|m| m.to_vec())
                .unwrap_or_default()
        }
        _ => {
            let mut fixed = [0u8; 29];
            fixed.copy_from_slice(&e.bytes(29));
            dhcp_wire(&fixed, 1 + e.choose(7) as u8, gen_utf8_no_nul(e).as_bytes(), gen_utf8_no_nul(e).as_bytes())
        }
    }
}

pub fn decode_all(which: usize, bytes: &[u8]) -> Result<bool, Failure> {
    // returns whether the decoder accepted
    let src = ip(1);
    let dst = ip(2);
    Ok(match which {
        0 => {
            guard(|| Ipv4Header::from_bytes(bytes.iter().cloned()))?.is_ok()
        }
        1 => guard(|| UdpHeader::from_bytes_ipv4(bytes.iter().cloned(), bytes.len(), src, dst))?.is_ok(),
        2 => guard(|| TcpHeader::from_bytes(bytes.iter().cloned(), bytes.len(), src, dst))?.is_ok(),
        3 => guard(|| ArpPacket::from_bytes(bytes.iter().cloned()))?.is_ok(),
        4 => {
            guard(|| DnsMessage::from_bytes(bytes.iter().cloned()))?.is_ok()
        }
        _ => guard(|| DhcpMessage::from_bytes(bytes.iter().cloned()))?.is_ok(),
    })
}

pub const DECODER_NAMES: [&str; 6] = ["ipv4", "udp", "tcp", "arp", "dns", "dhcp"];

impl Check for DecodersNoPanic {
    fn id(&self) -> &'static str {
        "C14.decoders"
    }
    fn rule(&self) -> String {
        "generated: for one of the six decoders, either a valid packet truncated at a generated length, a valid packet with 1..4 mutated bytes (random value, bit flip, extreme value 0/0xff/0x80, delimiter bytes), a valid packet with a 16-bit field overwritten by an extreme, or a random byte string of length 0..80; oracle: the decoder returns instead of unwinding. non-trivial: the input is at least half of the decoder's minimum header length (it gets past the first length check). distinct: hash of decoded input".into()
    }
    fn max_entropy(&self) -> usize {
        400
    }
    fn run(&self, e: &mut Entropy, ctx: &mut Ctx) -> Result<(), Failure> {
        let which = e.choose(6);
        ctx.class(DECODER_NAMES[which]);
        let min_len = [20usize, 8, 20, 28, 12 + 1 + 4 + 1 + 12, 32][which];
        let mut bytes = match e.weighted(&[3, 5, 2, 2]) {
            0 => {
                let mut b = valid_packet(e, which);
                let l = e.choose(b.len() + 1);
                b.truncate(l);
                ctx.class("truncated");
                b
            }
            1 => {
                let mut b = valid_packet(e, which);
                let n = 1 + e.choose(4);
                for _ in 0..n {
                    if b.is_empty() {
                        break;
                    }
                    let i = if e.bool() { e.choose(b.len().min(min_len + 8)) } else { e.choose(b.len()) };
                    b[i] = match e.choose(4) {
                        0 => e.u8(),
                        1 => b[i] ^ (1 << e.choose(8)),
                        2 => *e.pick(&[0u8, 0xff, 0x80, 0x7f, 8, 9]),
                        _ => *e.pick(&[b' ', 0u8, 0xc3, 0xe2, 0xf0, 0xfe]),
                    };
                }
                ctx.class("mutated");
                b
            }
            2 => {
                let mut b = valid_packet(e, which);
                if b.len() >= 2 {
                    let i = e.choose(b.len() - 1);
                    let v = *e.pick(&[0u16, 1, 7, 8, 19, 20, 0x7fff, 0x8000, 0xffff, 0xfffe]);
                    b[i..i + 2].copy_from_slice(&v.to_be_bytes());
                }
                ctx.class("extreme_field");
                b
            }
            _ => {
                let n = e.choose(81);
                ctx.class("random");
                e.bytes(n)
            }
        };
        if e.chance(1, 10) {
            { let n = e.choose(6); bytes.extend(e.bytes(n)); }
        }
        let accepted = decode_all(which, &bytes)?;
        if accepted {
            ctx.class("accepted");
        }
        ctx.nontrivial = bytes.len() * 2 >= min_len;
        if ctx.want_desc {
            ctx.desc = Some(json!({"decoder": DECODER_NAMES[which], "bytes": hex(&bytes), "accepted": accepted}));
        }
        Ok(())
    }
}

// ------------------------------------------------------------------------------------------------
// C18 corruption detection (checksum build only)

pub struct CorruptionRejected;

impl Check for CorruptionRejected {
    fn id(&self) -> &'static str {
        "C18.corrupt"
    }
    fn rule(&self) -> String {
        "checksum build. generated: an emitted IPv4 header / UDP datagram / TCP segment (fields and payload as in C08, payload even/odd/empty/large, plus payloads solved so that the one's-complement sum is 0x0000 or 0xffff), then 1 or 2 flipped bits anywhere in the checksummed bytes; oracle: if the independent RFC 1071 verifier rejects the corrupted packet, the decoder must reject it too (skipped: UDP checksum field corrupted to 0, which means 'no checksum', and corruptions that keep the header syntactically valid but are undetectable by the sum). non-trivial: the flipped bit lies in the payload or in a field the decoder does not otherwise validate (ports, seq, ack, window, addresses, id, ttl). distinct: hash of decoded case".into()
    }
    fn max_entropy(&self) -> usize {
        300
    }
    fn run(&self, e: &mut Entropy, ctx: &mut Ctx) -> Result<(), Failure> {
        if !CHECKSUM_BUILD {
            return Ok(());
        }
        let which = e.choose(3);
        let (src, dst) = (e.u32(), e.u32());
        let mut payload = gen_payload(e, 3000);
        // optionally solve the last two payload bytes so that the packet sum hits +-0
        let solve = e.chance(1, 4) && payload.len() >= 2;
        let packet: Vec<u8>;
        let pseudo: Vec<u8>;
        match which {
            0 => {
                let mut r = false;
                let mut h = gen_ipv4_header(e, &mut r);
                h.source = ip(src);
                h.destination = ip(dst);
                if solve {
                    // choose identification so that the header sums to 0xffff before complement
                    let mut tmp = h;
                    tmp.identification = 0;
                    let b = tmp.serialize().unwrap();
                    let mut z = b.clone();
                    z[10] = 0;
                    z[11] = 0;
                    let partial = !rfc1071(&[&z]); // sum of the other words
                    h.identification = !partial; // total sum becomes 0xffff -> checksum 0x0000 in RFC terms
                    ctx.class("solved_zero_sum");
                }
                packet = h.serialize().unwrap();
                pseudo = vec![];
                ctx.class("ipv4");
            }
            1 => {
                let (sp, dp) = (e.u16(), e.u16());
                if solve {
                    let n = payload.len();
                    payload[n - 2] = 0;
                    payload[n - 1] = 0;
                    let hdr = build_udp_header(ip(src), sp, ip(dst), dp, payload.iter().cloned(), n).unwrap();
                    let mut z = hdr.clone();
                    z[6] = 0;
                    z[7] = 0;
                    let ps = pseudo_header(src, dst, 17, (8 + n) as u16);
                    let partial = !rfc1071(&[&ps, &z, &payload]);
                    let fill = !partial;
                    if n % 2 == 0 {
                        payload[n - 2..].copy_from_slice(&fill.to_be_bytes());
                    }
                    ctx.class("solved_zero_sum");
                }
                let mut p = build_udp_header(ip(src), sp, ip(dst), dp, payload.iter().cloned(), payload.len()).unwrap();
                p.extend_from_slice(&payload);
                pseudo = pseudo_header(src, dst, 17, p.len() as u16);
                packet = p;
                ctx.class("udp");
            }
            _ => {
                let b = TcpHeaderBuilder::new(e.u16(), e.u16(), e.u32()).wnd(e.u16()).ack(e.u32());
                if solve {
                    let n = payload.len();
                    payload[n - 2] = 0;
                    payload[n - 1] = 0;
                }
                let mut h = b.build(ip(src), ip(dst), payload.iter().cloned(), payload.len()).unwrap();
                if solve && payload.len() % 2 == 0 {
                    let n = payload.len();
                    let mut z = h;
                    z.checksum = 0;
                    let ps = pseudo_header(src, dst, 6, (20 + n) as u16);
                    let partial = !rfc1071(&[&ps, &z.serialize(), &payload]);
                    payload[n - 2..].copy_from_slice(&(!partial).to_be_bytes());
                    let b2 = TcpHeaderBuilder::new(h.src_port, h.dst_port, h.seq).wnd(h.wnd).ack(h.ack);
                    h = b2.build(ip(src), ip(dst), payload.iter().cloned(), payload.len()).unwrap();
                    ctx.class("solved_zero_sum");
                }
                let mut p = h.serialize();
                p.extend_from_slice(&payload);
                pseudo = pseudo_header(src, dst, 6, p.len() as u16);
                packet = p;
                ctx.class("tcp");
            }
        }
        let decode = |bytes: &[u8]| -> Result<bool, Failure> {
            Ok(match which {
                0 => guard(|| Ipv4Header::from_bytes(bytes.iter().cloned()))?.is_ok(),
                1 => guard(|| UdpHeader::from_bytes_ipv4(bytes.iter().cloned(), bytes.len(), ip(src), ip(dst)))?.is_ok(),
                _ => guard(|| TcpHeader::from_bytes(bytes.iter().cloned(), bytes.len(), ip(src), ip(dst)))?.is_ok(),
            })
        };
        ensure!(rfc1071_verifies(&[&pseudo, &packet]), "checksum_valid", "emitted", "emitted packet does not verify: {}", hex(&packet[..packet.len().min(40)]));
        ensure!(decode(&packet)?, "checksum_accept", "own_packet_rejected", "decoder rejects the packet the encoder emitted: {}", hex(&packet[..packet.len().min(40)]));
        // corrupt
        let nflip = 1 + e.choose(2);
        let mut bad = packet.clone();
        let mut positions = vec![];
        for _ in 0..nflip {
            let bit = e.choose(bad.len() * 8);
            bad[bit / 8] ^= 1 << (bit % 8);
            positions.push(bit);
        }
        if bad == packet {
            return Ok(());
        }
        if which == 1 && bad[6] == 0 && bad[7] == 0 {
            ctx.class("skipped_udp_checksum_zero");
            return Ok(());
        }
        let detectable = !rfc1071_verifies(&[&pseudo, &bad]);
        let accepted = decode(&bad)?;
        if detectable {
            ensure!(!accepted, "corruption_detected", "corrupted_packet_accepted", "flipping bit(s) {positions:?} of {} is detectable by the Internet checksum but the decoder accepted the packet", hex(&packet[..packet.len().min(40)]));
            ctx.class("detected");
        } else {
            ctx.class("undetectable_by_sum");
        }
        let hdr_len = [20, 8, 20][which];
        ctx.nontrivial = positions.iter().any(|b| b / 8 >= hdr_len) || positions.iter().any(|b| match which {
            0 => (4..6).contains(&(b / 8)) || b / 8 == 8 || b / 8 >= 12,
            1 => b / 8 < 4,
            _ => b / 8 < 12 || (14..16).contains(&(b / 8)),
        });
        if ctx.want_desc {
            ctx.desc = Some(json!({"protocol": (["ipv4", "udp", "tcp"][which]), "packet_len": packet.len(), "flipped_bits": positions, "detectable": detectable}));
        }
        Ok(())
    }
}
