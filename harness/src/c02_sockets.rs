//! C02: socket I/O across the full stack is intact, ordered and bounded.

use crate::engine::*;
use crate::sim::*;
use crate::{ensure, fail};
use async_trait::async_trait;
use elvis_core::ip_table::IpTable;
use elvis_core::machine::Machine;
use elvis_core::message::Message;
use elvis_core::network::NetworkBuilder;
use elvis_core::protocol::{DemuxError, StartError};
use elvis_core::protocols::ipv4::{Ipv4Address, Recipient};
use elvis_core::protocols::pci::Pci;
use elvis_core::protocols::socket_api::socket::{ProtocolFamily, Socket, SocketType};
use elvis_core::protocols::{Arp, Endpoint, Ipv4, SocketAPI, Tcp, Udp};
use elvis_core::{run_internet_with_timeout, Control, Protocol, Session, Shutdown};
use serde_json::json;
use std::sync::atomic::{AtomicUsize, Ordering};
use std::sync::{Arc, Mutex};
use std::time::Duration;
use tokio::sync::Barrier;

pub fn spat(i: usize, salt: u8) -> u8 {
    ((i as u32).wrapping_mul(2246822519) >> 9) as u8 ^ salt ^ ((i >> 2) as u8)
}

#[derive(Debug, Clone, PartialEq)]
pub enum Act {
    Write(usize),
    Sleep(u64),
    Recv(usize),
    RecvMsg,
}

#[derive(Debug, Clone)]
pub struct Script {
    pub acts: Vec<Act>,
    /// bytes this side writes in total / expects to read in total
    pub writes_total: usize,
    pub reads_total: usize,
    pub drain_chunk: usize,
}

#[derive(Debug, Clone, Default)]
pub struct ConnReport {
    pub conn: usize,
    pub side: &'static str,
    pub read: usize,
    pub written: usize,
    pub done: bool,
    pub error: Option<String>,
    pub max_recv_excess: usize,
    pub short_read_seen: bool,
}

pub type Reports = Arc<Mutex<Vec<ConnReport>>>;

pub struct StreamClient {
    pub conn: usize,
    pub server: Endpoint,
    pub script: Script,
    pub reports: Reports,
    pub remaining: Arc<AtomicUsize>,
    pub start_delay_ms: u64,
}

fn finish(reports: &Reports, report: ConnReport, remaining: &Arc<AtomicUsize>, shutdown: &Shutdown) {
    let failed = report.error.is_some();
    reports.lock().unwrap().push(report);
    if failed || remaining.fetch_sub(1, Ordering::SeqCst) == 1 {
        shutdown.shut_down();
    }
}

#[async_trait]
impl Protocol for StreamClient {
    async fn start(&self, shutdown: Shutdown, initialized: Arc<Barrier>, machine: Arc<Machine>) -> Result<(), StartError> {
        initialized.wait().await;
        let (conn, server, script, reports, remaining, delay) = (self.conn, self.server, self.script.clone(), self.reports.clone(), self.remaining.clone(), self.start_delay_ms);
        tokio::spawn(async move {
            let mut report = ConnReport { conn, side: "client", ..Default::default() };
            tokio::time::sleep(Duration::from_millis(delay)).await;
            let api = machine.protocol::<SocketAPI>().unwrap();
            let mut sock = match api.new_socket(ProtocolFamily::INET, SocketType::Stream, machine.clone()).await {
                Ok(s) => s,
                Err(err) => {
                    report.error = Some(format!("new_socket: {err:?}"));
                    finish(&reports, report, &remaining, &shutdown);
                    return;
                }
            };
            if let Err(err) = sock.connect(server).await {
                report.error = Some(format!("connect: {err:?}"));
                finish(&reports, report, &remaining, &shutdown);
                return;
            }
            // identify the connection to the server with one byte that is not part of the checked stream
            if let Err(err) = sock.send(vec![conn as u8]) {
                report.error = Some(format!("send id: {err:?}"));
                finish(&reports, report, &remaining, &shutdown);
                return;
            }
            run_script_shifted(&mut Shifted { inner: &mut sock, pre: 0 }, &script, conn as u8, 0x80 + conn as u8, &mut report).await;
            // keep the socket alive until the simulation ends (dropping it unregisters the session)
            finish(&reports, report, &remaining, &shutdown);
            std::future::pending::<()>().await;
            drop(sock);
        });
        Ok(())
    }
    fn demux(&self, _m: Message, _c: Arc<dyn Session>, _ctl: Control, _machine: Arc<Machine>) -> Result<(), DemuxError> {
        Ok(())
    }
}

pub struct StreamServer {
    pub port: u16,
    pub scripts: Vec<Script>,
    pub reports: Reports,
    pub remaining: Arc<AtomicUsize>,
    pub first_read: usize,
}

#[async_trait]
impl Protocol for StreamServer {
    async fn start(&self, shutdown: Shutdown, initialized: Arc<Barrier>, machine: Arc<Machine>) -> Result<(), StartError> {
        let api = machine.protocol::<SocketAPI>().unwrap();
        let mut listener = api.new_socket(ProtocolFamily::INET, SocketType::Stream, machine.clone()).await.map_err(|_| StartError::Other)?;
        listener.bind(Endpoint::new(Ipv4Address::CURRENT_NETWORK, self.port)).map_err(|_| StartError::Other)?;
        listener.listen(64).map_err(|_| StartError::Other)?;
        initialized.wait().await;
        let (scripts, reports, remaining, first_read) = (self.scripts.clone(), self.reports.clone(), self.remaining.clone(), self.first_read);
        tokio::spawn(async move {
            loop {
                let mut sock = match listener.accept().await {
                    Ok(s) => s,
                    Err(_) => break,
                };
                let (scripts, reports, remaining, shutdown) = (scripts.clone(), reports.clone(), remaining.clone(), shutdown.clone());
                tokio::spawn(async move {
                    let mut report = ConnReport { conn: usize::MAX, side: "server", ..Default::default() };
                    // the first byte names the connection; ask for `first_read` bytes at most
                    let id = match sock.recv(first_read).await {
                        Ok(d) if !d.is_empty() => d,
                        Ok(_) => {
                            report.error = Some("empty first read".into());
                            finish(&reports, report, &remaining, &shutdown);
                            return;
                        }
                        Err(err) => {
                            report.error = Some(format!("first recv: {err:?}"));
                            finish(&reports, report, &remaining, &shutdown);
                            return;
                        }
                    };
                    if id.len() > first_read {
                        report.max_recv_excess = id.len() - first_read;
                        report.error = Some(format!("recv({first_read}) returned {} bytes", id.len()));
                        finish(&reports, report, &remaining, &shutdown);
                        return;
                    }
                    let conn = id[0] as usize;
                    report.conn = conn;
                    let Some(script) = scripts.get(conn).cloned() else {
                        report.error = Some(format!("unknown connection id {conn}"));
                        finish(&reports, report, &remaining, &shutdown);
                        return;
                    };
                    // bytes of the client's stream that came along with the id
                    let extra = &id[1..];
                    let mut pre = 0;
                    for (i, b) in extra.iter().enumerate() {
                        if *b != spat(i, conn as u8) {
                            report.error = Some(format!("stream byte {i} is {:#04x}, the peer wrote {:#04x} (first read)", b, spat(i, conn as u8)));
                            finish(&reports, report, &remaining, &shutdown);
                            return;
                        }
                        pre += 1;
                    }
                    // account for the bytes already consumed by shifting the expected stream
                    let mut s2 = script.clone();
                    s2.reads_total -= pre.min(s2.reads_total);
                    let mut shifted = Shifted { inner: &mut sock, pre };
                    run_script_shifted(&mut shifted, &s2, 0x80 + conn as u8, conn as u8, &mut report).await;
                    report.read += pre;
                    finish(&reports, report, &remaining, &shutdown);
                    std::future::pending::<()>().await;
                    drop(sock);
                });
            }
        });
        Ok(())
    }
    fn demux(&self, _m: Message, _c: Arc<dyn Session>, _ctl: Control, _machine: Arc<Machine>) -> Result<(), DemuxError> {
        Ok(())
    }
}

struct Shifted<'a> {
    inner: &'a mut Socket,
    pre: usize,
}

/// like run_script, but the first `pre` bytes of the incoming stream were consumed already
async fn run_script_shifted(s: &mut Shifted<'_>, script: &Script, salt_out: u8, salt_in: u8, report: &mut ConnReport) {
    // the incoming stream's expected byte i is spat(i + pre, salt_in): re-use run_script with a salted offset
    // by wrapping the pattern: implemented by a small local copy of the loop
    let pre = s.pre;
    let sock = &mut *s.inner;
    let mut read = 0usize;
    let mut written = 0usize;
    macro_rules! check {
        ($data:expr, $asked:expr) => {{
            let data: &[u8] = $data;
            let asked: Option<usize> = $asked;
            let mut ok = true;
            if let Some(n) = asked {
                if data.len() > n {
                    report.max_recv_excess = report.max_recv_excess.max(data.len() - n);
                    report.error = Some(format!("recv({n}) returned {} bytes", data.len()));
                    ok = false;
                }
                if data.len() < n {
                    report.short_read_seen = true;
                }
            }
            if ok {
                for (i, b) in data.iter().enumerate() {
                    let want = spat(pre + read + i, salt_in);
                    if *b != want {
                        report.error = Some(format!("stream byte {} is {:#04x}, the peer wrote {:#04x} (this read returned {} bytes after {} bytes had been read)", pre + read + i, b, want, data.len(), pre + read));
                        ok = false;
                        break;
                    }
                }
            }
            if ok {
                read += data.len();
                if read > script.reads_total {
                    report.error = Some(format!("read {} bytes but the peer only writes {}", pre + read, pre + script.reads_total));
                    ok = false;
                }
            }
            report.read = read;
            ok
        }};
    }
    for act in &script.acts {
        match act {
            Act::Write(n) => {
                let bytes: Vec<u8> = (0..*n).map(|i| spat(written + i, salt_out)).collect();
                if let Err(err) = sock.send(bytes) {
                    report.error = Some(format!("send failed: {err:?}"));
                    return;
                }
                written += n;
                report.written = written;
            }
            Act::Sleep(ms) => tokio::time::sleep(Duration::from_millis(*ms)).await,
            Act::Recv(n) => {
                if read >= script.reads_total {
                    continue;
                }
                match sock.recv(*n).await {
                    Ok(data) => {
                        if !check!(&data, Some(*n)) {
                            return;
                        }
                    }
                    Err(err) => {
                        report.error = Some(format!("recv failed: {err:?}"));
                        return;
                    }
                }
            }
            Act::RecvMsg => {
                if read >= script.reads_total {
                    continue;
                }
                match sock.recv_msg().await {
                    Ok(m) => {
                        if !check!(&m.to_vec(), None) {
                            return;
                        }
                    }
                    Err(err) => {
                        report.error = Some(format!("recv_msg failed: {err:?}"));
                        return;
                    }
                }
            }
        }
    }
    while read < script.reads_total {
        match sock.recv(script.drain_chunk).await {
            Ok(data) => {
                if !check!(&data, Some(script.drain_chunk)) {
                    return;
                }
            }
            Err(err) => {
                report.error = Some(format!("recv failed while draining: {err:?}"));
                return;
            }
        }
    }
    report.done = true;
}

// ------------------------------------------------------------------------------------------------

#[derive(Debug, Clone)]
pub struct Case {
    pub nclients: usize,
    pub mtu: u16,
    pub arp: bool,
    pub latency_ms: u64,
    pub client_scripts: Vec<Script>,
    pub server_scripts: Vec<Script>,
    pub start_delays: Vec<u64>,
    pub first_read: usize,
    /// fault plan: per IPv4 frame ordinal (cyclic): 0 deliver, 1 drop, 2 delay, 3 duplicate
    pub plan: Vec<u8>,
    pub delay_ms: u64,
    pub back_to_back: bool,
    pub small_read: bool,
    pub workers: usize, // 0 = current_thread with virtual time
    /// raw frames injected by an extra machine (C14): (time ms, destination MAC or None, is_arp, bytes)
    pub inject: Vec<(u64, Option<u64>, bool, Vec<u8>)>,
}

fn gen_script(e: &mut Entropy, b2b: &mut bool, small: &mut bool, max_total: usize, mtu: u16) -> (Vec<Act>, usize) {
    let n = e.choose(14);
    let mut acts = vec![];
    let mut total = 0usize;
    let mut last_was_write = false;
    for _ in 0..n {
        match e.weighted(&[6, 2, 3, 1]) {
            0 => {
                let len = match e.weighted(&[3, 3, 2, 2, 1]) {
                    0 => 1 + e.choose(8),
                    1 => 1 + e.choose(100),
                    2 => (mtu as usize).saturating_sub(60) + e.choose(30),
                    3 => mtu as usize + e.choose(3000),
                    _ => 6000 + e.choose(30000),
                };
                let len = len.min(max_total.saturating_sub(total));
                if len == 0 {
                    continue;
                }
                if last_was_write {
                    *b2b = true;
                }
                last_was_write = true;
                total += len;
                acts.push(Act::Write(len));
            }
            1 => {
                last_was_write = false;
                acts.push(Act::Sleep(*e.pick(&[1u64, 5, 20, 150])));
            }
            2 => {
                let k = match e.weighted(&[3, 2, 2, 1]) {
                    0 => 1 + e.choose(4),
                    1 => 1 + e.choose(64),
                    2 => 1 + e.choose(2000),
                    _ => 1 + e.choose(10000),
                };
                if k <= 8 {
                    *small = true;
                }
                acts.push(Act::Recv(k));
            }
            _ => acts.push(Act::RecvMsg),
        }
    }
    (acts, total)
}

pub fn gen_case(e: &mut Entropy, workers: usize) -> Case {
    let nclients = 1 + e.weighted(&[5, 3, 1, 1]);
    let mtu = 100 + e.choose(1401) as u16;
    let mut b2b = false;
    let mut small = false;
    let mut cs = vec![];
    let mut ss = vec![];
    for _ in 0..nclients {
        let (mut ca, ctot) = gen_script(e, &mut b2b, &mut small, 70_000, mtu);
        let (mut sa, stot) = gen_script(e, &mut b2b, &mut small, 70_000, mtu);
        // deadlock freedom: one side performs all of its writes before its first read, so the other
        // side's reads (interleaved with its writes at will) are always satisfiable
        let write_first = |acts: &mut Vec<Act>| {
            let (w, r): (Vec<Act>, Vec<Act>) = acts.drain(..).partition(|a| matches!(a, Act::Write(_) | Act::Sleep(_)));
            acts.extend(w);
            acts.extend(r);
        };
        if e.bool() {
            write_first(&mut ca);
        } else {
            write_first(&mut sa);
        }
        let cdrain = 1 + e.choose(5000);
        let sdrain = 1 + e.choose(5000);
        cs.push(Script { acts: ca, writes_total: ctot, reads_total: stot, drain_chunk: cdrain });
        ss.push(Script { acts: sa, writes_total: stot, reads_total: ctot, drain_chunk: sdrain });
    }
    let plan_len = 1 + e.choose(24);
    let lossy = e.weighted(&[3, 3, 2]);
    let plan: Vec<u8> = (0..plan_len)
        .map(|_| match lossy {
            0 => 0,
            1 => e.weighted(&[10, 1, 2, 1]) as u8,
            _ => e.weighted(&[4, 3, 3, 2]) as u8,
        })
        .collect();
    Case {
        nclients,
        mtu,
        arp: e.bool(),
        latency_ms: *e.pick(&[0u64, 0, 1, 7, 30]),
        client_scripts: cs,
        server_scripts: ss,
        start_delays: (0..nclients).map(|_| e.choose(3) as u64 * 10).collect(),
        first_read: *e.pick(&[1usize, 1, 1, 4, 64]),
        plan,
        delay_ms: *e.pick(&[1u64, 3, 12, 40]),
        back_to_back: b2b,
        small_read: small,
        workers,
        inject: vec![],
    }
}

pub struct Outcome {
    pub demux: Vec<DemuxRec>,
    pub reports: Vec<ConnReport>,
    pub frames: Vec<FrameRec>,
    pub status: String,
    pub panics: Vec<PanicInfo>,
    pub watchdog: bool,
}

pub fn build_and_run(case: &Case) -> Outcome {
    let wire = Wire::new();
    let plan = case.plan.clone();
    let delay_ms = case.delay_ms;
    // bounded consecutive loss per flow: never drop more than 3 frames in a row between one pair of MACs
    wire.set_planner(Box::new(move |f, earlier| {
        if f.proto != Proto::Ipv4 {
            return Decision::default();
        }
        let n = earlier.iter().filter(|x| x.proto == Proto::Ipv4).count();
        let d = plan[n % plan.len()];
        match d {
            1 => {
                // bounded loss: the same segment (sender, sequence number, length, SYN/FIN) is lost at most 3 times,
                // and a flow never loses more than 3 frames in a row
                let key = |x: &FrameRec| -> Option<(u64, Vec<u8>, usize, u8)> { if x.proto == Proto::Ipv4 && x.bytes.len() >= 40 && x.bytes[9] == 6 { Some((x.sender, x.bytes[24..28].to_vec(), x.bytes.len(), x.bytes[33] & 0x03)) } else { None } };
                let same_lost = earlier.iter().filter(|x| x.dropped && key(x).is_some() && key(x) == key(f)).count();
                let consecutive = earlier.iter().rev().filter(|x| x.proto == Proto::Ipv4 && x.sender == f.sender && x.dest == f.dest).take_while(|x| x.dropped).count();
                Decision { drop: consecutive < 3 && same_lost < 3, delay_ms: 0, copies: vec![] }
            }
            2 => Decision { drop: false, delay_ms, copies: vec![] },
            3 => Decision { drop: false, delay_ms: 0, copies: vec![delay_ms / 2] },
            _ => Decision::default(),
        }
    }));
    let reports: Reports = Default::default();
    let remaining = Arc::new(AtomicUsize::new(case.nclients * 2));
    let mut nb = NetworkBuilder::new().mtu(case.mtu);
    if case.latency_ms > 0 {
        nb = nb.latency(elvis_core::network::Latency::constant(Duration::from_millis(case.latency_ms)));
    }
    let net = nb.build();
    net.verif_set_hook(Some(wire.clone()));
    let server_ip = Ipv4Address::new([10, 1, 0, 1]);
    let table: IpTable<Recipient> = [("0.0.0.0/0", Recipient::new(0, None))].into_iter().collect();
    let base = |ip: Ipv4Address| {
        let mut m = Machine::new().with(Pci::new([net.clone()])).with(Ipv4::new(table.clone())).with(Udp::new()).with(Tcp::new()).with(SocketAPI::new(Some(ip)));
        if case.arp {
            m = m.with(Arp::new());
        }
        m
    };
    let log: DemuxLog = Default::default();
    let bind_results = Arc::new(Mutex::new(vec![]));
    let mut server_machine = base(server_ip);
    if !case.inject.is_empty() {
        // a UDP listener that must never see an injected frame
        server_machine = with_recorder(server_machine, 0, 0, &wire, &log, vec![Endpoint::new(server_ip, 9)], &bind_results);
        // and a DHCP server whose decoder must drop what it cannot decode (C14)
        server_machine = server_machine.with(elvis::applications::DhcpServer::new(server_ip, elvis::ip_generator::IpRange::new(Ipv4Address::new([10, 1, 0, 200]), Ipv4Address::new([10, 1, 0, 220]))));
    }
    let mut machines = vec![server_machine.with(StreamServer { port: 80, scripts: case.server_scripts.clone(), reports: reports.clone(), remaining: remaining.clone(), first_read: case.first_read }).arc()];
    for c in 0..case.nclients {
        let ip = Ipv4Address::new([10, 1, 0, 10 + c as u8]);
        machines.push(base(ip).with(StreamClient { conn: c, server: Endpoint::new(server_ip, 80), script: case.client_scripts[c].clone(), reports: reports.clone(), remaining: remaining.clone(), start_delay_ms: case.start_delays[c] }).arc());
    }
    if !case.inject.is_empty() {
        machines.push(Machine::new().with(Pci::new([net.clone()])).with(RawInjector { frames: case.inject.clone() }).arc());
    }
    let horizon = Duration::from_secs(if case.workers == 0 { 120 } else { 20 });
    let _release = ReleaseOnDrop(machines.clone());
    let (status, panics, watchdog) = if case.workers == 0 {
        let (st, panics) = run_virtual(async { run_internet_with_timeout(&machines, horizon).await });
        (st.map(|s| format!("{s:?}")).unwrap_or("panicked".into()), panics, false)
    } else {
        let _permit = mt_permit();
        let (rt, name) = mt_runtime(case.workers);
        let st = std::panic::catch_unwind(std::panic::AssertUnwindSafe(|| rt.block_on(async { run_internet_with_timeout(&machines, horizon).await }))).ok();
        // panics up to the return of the run; tearing the runtime down afterwards cancels tasks in arbitrary
        // order (Machine::start then sees JoinError::Cancelled), which is not part of the run
        let mut panics = take_mt_panics(&name);
        panics.extend(take_local_panics());
        rt.shutdown_timeout(Duration::from_millis(200));
        let _ = take_mt_panics(&name);
        let wd = matches!(st, Some(elvis_core::ExitStatus::TimedOut));
        (st.map(|s| format!("{s:?}")).unwrap_or("panicked".into()), panics, wd)
    };
    let reports = reports.lock().unwrap().clone();
    let demux = log.lock().unwrap().clone();
    Outcome { demux, reports, frames: wire.snapshot(), status, panics, watchdog }
}

pub fn judge(case: &Case, out: &Outcome, ctx: &mut Ctx) -> Result<(), Failure> {
    if !out.panics.is_empty() {
        let mut f = panic_failure(&out.panics);
        f.oracle = "no_panic_in_simulation".into();
        return Err(f);
    }
    // a failing connection ends the run; the Shutdown errors of the other connections are secondary
    let mut ordered: Vec<&ConnReport> = out.reports.iter().filter(|r| r.error.as_ref().map(|e| !e.contains("Shutdown")).unwrap_or(false)).collect();
    ordered.extend(out.reports.iter().filter(|r| r.error.as_ref().map(|e| e.contains("Shutdown")).unwrap_or(false)));
    let only_shutdown = ordered.iter().all(|r| r.error.as_ref().unwrap().contains("Shutdown"));
    for r in ordered {
        if only_shutdown {
            break;
        }
        if let Some(err) = &r.error {
            if r.max_recv_excess > 0 {
                fail!("read_bounded", "recv_returns_more_than_asked", "connection {} ({}): {err}", r.conn, r.side);
            }
            if err.contains("stream byte") || err.contains("the peer only writes") {
                let tag = if case.workers > 0 { "stream_corrupted@multi_thread" } else { "stream_corrupted" };
                fail!("stream_intact", tag, "connection {} ({}) on {}: {err}", r.conn, r.side, if case.workers > 0 { format!("multi_thread runtime with {} workers", case.workers) } else { "current_thread runtime".into() });
            }
            fail!("socket_calls_succeed", "socket_error", "connection {} ({}): {err}", r.conn, r.side);
        }
    }
    let all_done = out.reports.len() == case.nclients * 2 && out.reports.iter().all(|r| r.done && r.error.is_none());
    if !all_done {
        if case.workers > 0 && out.watchdog {
            // real-time watchdog on the multi-thread runtime: inconclusive, not a violation
            ctx.class("multi_thread_watchdog_inconclusive");
            return Ok(());
        }
        let detail: Vec<String> = (0..case.nclients)
            .map(|c| {
                let cl = out.reports.iter().find(|r| r.conn == c && r.side == "client");
                let sv = out.reports.iter().find(|r| r.conn == c && r.side == "server");
                format!("conn {c}: client read {:?}/{} server read {:?}/{}", cl.map(|r| r.read), case.client_scripts[c].reads_total, sv.map(|r| r.read), case.server_scripts[c].reads_total)
            })
            .collect();
        let unread_over_255 = out.frames.len() > 255;
        fail!("everything_delivered", if unread_over_255 { "incomplete_with_many_frames" } else { "incomplete" }, "run ended with status {} before every byte was delivered ({} frames on the wire): {:?}", out.status, out.frames.len(), detail);
    }
    for r in &out.reports {
        let want = if r.side == "client" { case.client_scripts[r.conn].reads_total } else { case.server_scripts[r.conn].reads_total };
        ensure!(r.read == want, "stream_intact", "length", "connection {} ({}) read {} of {} bytes", r.conn, r.side, r.read, want);
    }
    Ok(())
}

pub struct StreamSockets {
    pub multi_thread: bool,
}

impl Check for StreamSockets {
    fn id(&self) -> &'static str {
        if self.multi_thread {
            "C02.multithread"
        } else {
            "C02.stream"
        }
    }
    fn rule(&self) -> String {
        format!("{}generated: one listening server and 1..4 clients (SocketAPI, Tcp, Udp, Ipv4, Pci, ARP on all or none) on a network with MTU 100..1500 and latency 0..30 ms; per connection and direction a script of up to 14 actions: write(n) with n in 1..8 / ..100 / around MTU-50 / above the MTU / 6000..36000 (back-to-back or separated by virtual sleeps), recv(k) with k in 1..4 / ..64 / ..2000 / ..10000, recv_msg(), then a drain loop of recv(k); the first read of the server is recv(1|4|64); fault plan over IPv4 frames: deliver / drop (the same segment at most 3 times, at most 3 consecutive frames per flow) / extra delay (reordering) / duplicate; oracle: every recv(k) returns at most k bytes, the bytes read continue the peer's position-coded stream exactly (nothing lost, duplicated or reordered), every byte written is eventually read, no socket call fails, no task panics. non-trivial: at least two back-to-back writes in one direction AND (a read smaller than 9 bytes, or a data frame dropped / delayed / duplicated, or the multi-thread runtime). distinct: hash of decoded case",
            if self.multi_thread { "runtime: tokio multi_thread with 2/4/8/16 workers in real time (loss-free or lightly faulty plans; a real-time watchdog expiry is inconclusive, never a violation). " } else { "runtime: tokio current_thread under virtual time. " })
    }
    fn assumptions(&self) -> Vec<String> {
        vec![
            "the byte that names the connection to the server is sent by the harness client before the checked stream".into(),
            "unread deliveries per socket stay below the socket layer's queue bound in generated cases (open known finding socket_queue_over_255 when exceeded)".into(),
        ]
    }
    fn max_entropy(&self) -> usize {
        500
    }
    fn run(&self, e: &mut Entropy, ctx: &mut Ctx) -> Result<(), Failure> {
        let workers = if self.multi_thread { *e.pick(&[2usize, 4, 8, 16]) } else { 0 };
        let mut case = gen_case(e, workers);
        if self.multi_thread {
            // real time: keep it short and only lightly faulty
            for p in case.plan.iter_mut() {
                if *p == 1 && e.chance(3, 4) {
                    *p = 0;
                }
            }
            case.latency_ms = case.latency_ms.min(1);
            for s in case.client_scripts.iter_mut().chain(case.server_scripts.iter_mut()) {
                for a in s.acts.iter_mut() {
                    if let Act::Sleep(ms) = a {
                        *ms = (*ms).min(5);
                    }
                }
            }
        }
        let out = build_and_run(&case);
        if ctx.want_desc {
            ctx.desc = Some(json!({
                "clients": case.nclients, "mtu": case.mtu, "arp": case.arp, "latency_ms": case.latency_ms, "workers": case.workers, "first_read": case.first_read,
                "plan": case.plan, "delay_ms": case.delay_ms,
                "client_scripts": case.client_scripts.iter().map(|s| format!("{:?} then drain recv({}) until {}", s.acts, s.drain_chunk, s.reads_total)).collect::<Vec<_>>(),
                "server_scripts": case.server_scripts.iter().map(|s| format!("{:?} then drain recv({}) until {}", s.acts, s.drain_chunk, s.reads_total)).collect::<Vec<_>>(),
                "status": out.status, "frames": out.frames.len(),
                "reports": out.reports.iter().map(|r| format!("{} {}: read {} written {} done {} err {:?}", r.side, r.conn, r.read, r.written, r.done, r.error)).collect::<Vec<_>>(),
            }));
        }
        if std::env::var("VERIF_C02_DEBUG").is_ok() {
            // reconstruct every TCP byte stream from the wire and compare it with the pattern
            use std::collections::BTreeMap;
            let mut streams: BTreeMap<(Vec<u8>, Vec<u8>, u16, u16), Vec<(u32, Vec<u8>, Duration)>> = BTreeMap::new();
            for f in out.frames.iter().filter(|f| f.proto == Proto::Ipv4 && f.bytes.len() >= 40 && f.bytes[9] == 6) {
                let key = (f.bytes[12..16].to_vec(), f.bytes[16..20].to_vec(), u16::from_be_bytes([f.bytes[20], f.bytes[21]]), u16::from_be_bytes([f.bytes[22], f.bytes[23]]));
                let seq = u32::from_be_bytes([f.bytes[24], f.bytes[25], f.bytes[26], f.bytes[27]]);
                streams.entry(key).or_default().push((seq, f.bytes[40..].to_vec(), f.t));
            }
            for f in out.frames.iter().take(80) {
                let tcp = if f.proto == Proto::Ipv4 && f.bytes.len() >= 40 { format!("seq {} ack {} flags {:#x} len {}", u32::from_be_bytes([f.bytes[24], f.bytes[25], f.bytes[26], f.bytes[27]]), u32::from_be_bytes([f.bytes[28], f.bytes[29], f.bytes[30], f.bytes[31]]), f.bytes[33], f.bytes.len() - 40) } else { String::new() };
                crate::outln!("#{} t={:?} {:?} {}->{:?} dropped={} delay={:?} copies={} delivered={:?} {}", f.order, f.t, f.proto, f.sender, f.dest, f.dropped, f.extra_delay, f.copies, f.deliveries.len(), tcp);
            }
            for (k, segs) in streams {
                let data_segs: Vec<&(u32, Vec<u8>, Duration)> = segs.iter().filter(|s| !s.1.is_empty()).collect();
                if data_segs.is_empty() {
                    continue;
                }
                let base = data_segs.iter().map(|s| s.0).min().unwrap();
                let mut first_emission: Vec<(u32, usize, Duration)> = vec![];
                for s in &data_segs {
                    if !first_emission.iter().any(|x| x.0 == s.0) {
                        first_emission.push((s.0.wrapping_sub(base), s.1.len(), s.2));
                    }
                }
                crate::outln!("stream {:?}: first emissions (offset,len,t) {:?}", k, &first_emission[..first_emission.len().min(60)]);
            }
        }
        judge(&case, &out, ctx)?;
        let faults = out.frames.iter().any(|f| f.proto == Proto::Ipv4 && f.bytes.len() > 40 && (f.dropped || f.extra_delay > Duration::ZERO || f.copies > 0));
        ctx.nontrivial = case.back_to_back && (case.small_read || faults || case.workers > 0);
        if faults {
            ctx.class("data_frame_faulted");
        }
        if case.small_read {
            ctx.class("small_reads");
        }
        if case.back_to_back {
            ctx.class("back_to_back_writes");
        }
        if case.nclients > 1 {
            ctx.class("several_clients");
        }
        if out.reports.iter().any(|r| r.short_read_seen) {
            ctx.class("short_read_seen");
        }
        ctx.measure("max_frames", out.frames.len() as f64);
        Ok(())
    }
}


/// Sends prepared raw frames (C14): the frame's target protocol is Ipv4 or Arp.
pub struct RawInjector {
    pub frames: Vec<(u64, Option<u64>, bool, Vec<u8>)>,
}

#[async_trait]
impl Protocol for RawInjector {
    async fn start(&self, _shutdown: Shutdown, initialized: Arc<Barrier>, machine: Arc<Machine>) -> Result<(), StartError> {
        initialized.wait().await;
        let frames = self.frames.clone();
        tokio::spawn(async move {
            let t0 = tokio::time::Instant::now();
            let pci = machine.protocol::<Pci>().unwrap();
            let mut frames = frames;
            frames.sort_by_key(|f| f.0);
            for (at, dest, is_arp, bytes) in frames {
                tokio::time::sleep_until(t0 + Duration::from_millis(at)).await;
                let proto = if is_arp { std::any::TypeId::of::<Arp>() } else { std::any::TypeId::of::<Ipv4>() };
                let _ = pci.open(0).send_pci(Message::new(bytes), dest, proto);
            }
        });
        Ok(())
    }
    fn demux(&self, _m: Message, _c: Arc<dyn Session>, _ctl: Control, _machine: Arc<Machine>) -> Result<(), DemuxError> {
        Ok(())
    }
}
