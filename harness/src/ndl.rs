//! C19 (parse part): parse(render(T)) == T for generated description trees in every rendering,
//! structural mutants are rejected. C14 (b): mutated NDL texts never make the parser panic.

use crate::engine::*;
use crate::{ensure, fail};
use elvis::ndl::core_parser;
use elvis::ndl::parsing::parsing_data::{self as pd, DecType, Sim};
use serde_json::json;
use std::collections::HashMap;

pub type Args = Vec<(String, String)>;

#[derive(Debug, Clone)]
pub struct NetT {
    pub args: Args, // contains id
    pub ips: Vec<Args>,
}

#[derive(Debug, Clone)]
pub struct MachT {
    pub args: Args,
    pub networks: Vec<Args>,
    pub protocols: Vec<Args>,
    pub applications: Vec<Args>,
    /// order in which the three sections are rendered: permutation of 0,1,2
    pub order: [usize; 3],
}

#[derive(Debug, Clone)]
pub struct Tree {
    pub nets: Vec<NetT>,
    pub machines: Vec<MachT>,
    pub machines_first: bool,
}

#[derive(Debug, Clone, Default)]
pub struct Render {
    pub indent_spaces: bool, // 4 spaces instead of a tab
    pub mixed_indent: bool,  // alternate per level
    pub crlf: bool,
    pub blank_lines: bool,
    pub upper: u8, // 0 as is, 1 UPPER, 2 lower
    pub wide_separators: bool,
    pub trailing_newline: bool,
    pub template_line: bool,
}

#[derive(Debug, Clone, PartialEq)]
pub enum Mutant {
    None,
    WrongChildType(usize), // line index
    ExtraIndent(usize),
    LessIndent(usize),
    UnknownKeyword(usize),
    MissingSection { machine: usize, section: usize },
    DuplicateNetworkId,
    DuplicateArgument(usize),
}

fn gen_value(e: &mut Entropy, escaped_seen: &mut bool) -> String {
    let n = match e.weighted(&[1, 6, 2]) {
        0 => 0,
        1 => 1 + e.choose(10),
        _ => 1 + e.choose(40),
    };
    let mut s = String::new();
    let mut spaces = 0;
    for _ in 0..n {
        let c: String = match e.weighted(&[10, 4, 2, 2, 1, 1, 1]) {
            0 => ((b'a' + e.choose(26) as u8) as char).to_string(),
            1 => ((b'0' + e.choose(10) as u8) as char).to_string(),
            2 => " ".to_string(),
            3 => e.pick(&[".", "-", "_", "=", "[", "\"", "/", ":", ",", "!", "\t"]).to_string(),
            4 => {
                *escaped_seen = true;
                "\\'".to_string()
            }
            5 => e.pick(&["é", "世", "ß", "𝄞", "—"]).to_string(),
            _ => "\n".to_string(),
        };
        if c == " " {
            spaces += 1;
            if spaces >= 3 {
                continue;
            }
        } else {
            spaces = 0;
        }
        s.push_str(&c);
    }
    s
}

fn gen_key(e: &mut Entropy, used: &[(String, String)]) -> String {
    for _ in 0..8 {
        let base = match e.weighted(&[6, 3, 1]) {
            0 => e.pick(&["name", "ip", "port", "to", "message", "count", "range", "type", "local_port", "remote_port", "starter", "factory", "x", "k1", "auto-protocol"]).to_string(),
            1 => {
                let n = 1 + e.choose(6);
                (0..n).map(|_| (b'a' + e.choose(26) as u8) as char).collect()
            }
            _ => e.pick(&["a.b", "k:1", "a b", "q\"", "", "key-with-dash", "K"]).to_string(),
        };
        if !used.iter().any(|(k, _)| *k == base) {
            return base;
        }
    }
    format!("k{}", used.len())
}

fn gen_args(e: &mut Entropy, max: usize, required: Option<(&str, String)>, escaped_seen: &mut bool) -> Args {
    let mut a: Args = vec![];
    if let Some((k, v)) = required {
        a.push((k.to_string(), v));
    }
    let n = e.choose(max + 1);
    for _ in 0..n {
        let k = gen_key(e, &a);
        let v = gen_value(e, escaped_seen);
        a.push((k, v));
    }
    // the required argument is not always first
    if a.len() > 1 && e.bool() {
        let i = e.choose(a.len());
        a.swap(0, i);
    }
    a
}

pub fn gen_tree(e: &mut Entropy, escaped_seen: &mut bool) -> Tree {
    let nn = 1 + e.choose(4);
    let mut nets = vec![];
    for i in 0..nn {
        let id = if e.bool() { format!("{}", i + 1) } else { format!("n{}{}", i, gen_value(e, escaped_seen).replace('\n', "x")) };
        let args = gen_args(e, 2, Some(("id", id)), escaped_seen);
        let nips = 1 + e.choose(3);
        let ips = (0..nips)
            .map(|j| match e.choose(3) {
                0 => vec![("ip".to_string(), format!("10.{}.{}.{}", i, j, 1 + e.choose(200)))],
                1 => vec![("range".to_string(), format!("12.{}.{}.{}-{}", i, j, 1 + e.choose(100), 101 + e.choose(100)))],
                _ => gen_args(e, 2, None, escaped_seen),
            })
            .collect();
        nets.push(NetT { args, ips });
    }
    let nm = 1 + e.choose(6);
    let mut machines = vec![];
    for _ in 0..nm {
        let args = gen_args(e, 3, None, escaped_seen);
        let mut networks = vec![];
        for _ in 0..1 + e.choose(2) {
            let id = format!("{}", 1 + e.choose(nn));
            networks.push(gen_args(e, 1, Some(("id", id)), escaped_seen));
        }
        let mut protocols = vec![];
        for _ in 0..1 + e.choose(3) {
            let name = e.pick(&["IPv4", "UDP", "ARP", "TCP"]).to_string();
            protocols.push(gen_args(e, 2, Some(("name", name)), escaped_seen));
        }
        let mut applications = vec![];
        for _ in 0..1 + e.choose(2) {
            let name = e.pick(&["send_message", "capture", "forward", "ping_pong"]).to_string();
            applications.push(gen_args(e, 4, Some(("name", name)), escaped_seen));
        }
        let order = *e.pick(&[[0, 1, 2], [0, 2, 1], [1, 0, 2], [1, 2, 0], [2, 0, 1], [2, 1, 0]]);
        machines.push(MachT { args, networks, protocols, applications, order });
    }
    Tree { nets, machines, machines_first: e.chance(1, 4) }
}

pub fn gen_render(e: &mut Entropy) -> Render {
    Render {
        indent_spaces: e.chance(1, 3),
        mixed_indent: e.chance(1, 6),
        crlf: e.chance(1, 4),
        blank_lines: e.chance(1, 4),
        upper: e.weighted(&[4, 1, 1]) as u8,
        wide_separators: e.chance(1, 5),
        trailing_newline: e.bool(),
        template_line: e.chance(1, 8),
    }
}

/// one rendered line: (depth, keyword, args)
#[derive(Debug, Clone)]
pub struct Line {
    pub depth: usize,
    pub kw: &'static str,
    pub args: Args,
    /// what kind of line it is, for mutants
    pub role: &'static str,
    pub machine: Option<usize>,
    pub section: Option<usize>,
}

pub fn lines_of(t: &Tree) -> Vec<Line> {
    let mut out = vec![];
    let nets = |out: &mut Vec<Line>| {
        out.push(Line { depth: 0, kw: "Networks", args: vec![], role: "networks", machine: None, section: None });
        for n in &t.nets {
            out.push(Line { depth: 1, kw: "Network", args: n.args.clone(), role: "network", machine: None, section: None });
            for ip in &n.ips {
                out.push(Line { depth: 2, kw: "IP", args: ip.clone(), role: "ip", machine: None, section: None });
            }
        }
    };
    let machs = |out: &mut Vec<Line>| {
        out.push(Line { depth: 0, kw: "Machines", args: vec![], role: "machines", machine: None, section: None });
        for (mi, m) in t.machines.iter().enumerate() {
            out.push(Line { depth: 1, kw: "Machine", args: m.args.clone(), role: "machine", machine: Some(mi), section: None });
            for sec in m.order {
                let (kw, child, items): (&'static str, &'static str, &Vec<Args>) = match sec {
                    0 => ("Networks", "Network", &m.networks),
                    1 => ("Protocols", "Protocol", &m.protocols),
                    _ => ("Applications", "Application", &m.applications),
                };
                out.push(Line { depth: 2, kw, args: vec![], role: "msection", machine: Some(mi), section: Some(sec) });
                for it in items {
                    out.push(Line { depth: 3, kw: child, args: it.clone(), role: "mitem", machine: Some(mi), section: Some(sec) });
                }
            }
        }
    };
    if t.machines_first {
        machs(&mut out);
        nets(&mut out);
    } else {
        nets(&mut out);
        machs(&mut out);
    }
    out
}

pub fn render_lines(lines: &[Line], r: &Render) -> String {
    let nl = if r.crlf { "\r\n" } else { "\n" };
    let mut s = String::new();
    if r.template_line {
        s.push_str("[Template]");
        s.push_str(nl);
    }
    for (i, l) in lines.iter().enumerate() {
        for d in 0..l.depth {
            let spaces = if r.mixed_indent { (d + i) % 2 == 0 } else { r.indent_spaces };
            s.push_str(if spaces { "    " } else { "\t" });
        }
        s.push('[');
        match r.upper {
            1 => s.push_str(&l.kw.to_uppercase()),
            2 => s.push_str(&l.kw.to_lowercase()),
            _ => s.push_str(l.kw),
        }
        for (k, v) in &l.args {
            s.push_str(if r.wide_separators { "  \t " } else { " " });
            s.push_str(k);
            s.push_str("='");
            s.push_str(v);
            s.push('\'');
        }
        s.push(']');
        if i + 1 < lines.len() || r.trailing_newline {
            s.push_str(nl);
            if r.blank_lines && i % 3 == 1 {
                s.push_str(nl);
            }
        }
    }
    s
}

fn to_map(a: &Args) -> HashMap<String, String> {
    a.iter().cloned().collect()
}

pub fn expected_sim(t: &Tree) -> Sim {
    let mut networks = HashMap::new();
    for n in &t.nets {
        let opts = to_map(&n.args);
        let id = opts.get("id").cloned().unwrap_or_default();
        networks.insert(id, pd::Network { dectype: DecType::Network, options: opts, ip: n.ips.iter().map(|a| pd::IP { dectype: DecType::IP, options: to_map(a) }).collect() });
    }
    let machines = t
        .machines
        .iter()
        .map(|m| pd::Machine {
            dectype: DecType::Machine,
            options: Some(to_map(&m.args)),
            interfaces: pd::Interfaces {
                networks: m.networks.iter().map(|a| pd::MachineNetwork { dectype: DecType::Network, options: to_map(a) }).collect(),
                protocols: m.protocols.iter().map(|a| pd::Protocol { dectype: DecType::Protocol, options: to_map(a) }).collect(),
                applications: m.applications.iter().map(|a| pd::Application { dectype: DecType::Application, options: to_map(a) }).collect(),
            },
        })
        .collect();
    Sim { networks, machines }
}

thread_local! {
    static TMP_PATH: String = {
        let dir = if std::path::Path::new("/dev/shm").is_dir() { "/dev/shm".to_string() } else { std::env::temp_dir().to_string_lossy().to_string() };
        format!("{}/vh-ndl-{}-{:?}.txt", dir, std::process::id(), std::thread::current().id()).replace(['(', ')'], "")
    };
}

pub fn parse_text(text: &str) -> Result<Result<Sim, String>, Failure> {
    let path = TMP_PATH.with(|p| p.clone());
    std::fs::write(&path, text.as_bytes()).map_err(|err| Failure::new("harness", "tmpfile", format!("{err}")))?;
    let r = guard(|| core_parser(path.clone()));
    let _ = std::fs::remove_file(&path);
    r
}

pub fn write_case_file(text: &str, tag: &str) -> String {
    let base = TMP_PATH.with(|p| p.clone());
    let path = format!("{base}.{tag}");
    let _ = std::fs::write(&path, text.as_bytes());
    path
}

pub struct NdlRoundTrip;

impl Check for NdlRoundTrip {
    fn id(&self) -> &'static str {
        "C19.parse"
    }
    fn rule(&self) -> String {
        "generated: description trees (1..4 networks with unique ids, ip/range/arbitrary IP entries and extra arguments; 1..6 machines with arbitrary arguments, their three sections in any order, 1..3 entries each; keys from the NDL vocabulary, random identifiers and odd keys; values from the parser's own value grammar: any characters except ', \\, ], CR and runs of spaces, with \\' escapes, non-ASCII and embedded newlines) rendered with tabs / 4 spaces / mixed indentation, LF / CRLF, blank lines, upper/lower-case keywords, wide argument separators, with or without a trailing newline or a [Template] line; oracle: core_parser(render(T)) == Ok(T) (Sim: PartialEq) for the generated rendering AND for the plain tab rendering; then one structural mutant made at tree level (child of the wrong type, extra indent, missing indent, unknown keyword, missing machine section, duplicate network id, duplicate argument) must give Err with a non-empty message. non-trivial: >= 2 machines, or an escaped quote, or a non-tab rendering. distinct: hash of decoded tree, rendering and mutant".into()
    }
    fn assumptions(&self) -> Vec<String> {
        vec!["texts are written to a tmpfs file because core_parser takes a path".into()]
    }
    fn max_entropy(&self) -> usize {
        700
    }
    fn run(&self, e: &mut Entropy, ctx: &mut Ctx) -> Result<(), Failure> {
        // rendering and mutant choice are decoded before the tree so that they are not starved of entropy
        let r = gen_render(e);
        let which = e.choose(7);
        let pick_seed = e.u16() as usize;
        let pick_seed2 = e.u16() as usize;
        let mut escaped = false;
        let tree = gen_tree(e, &mut escaped);
        let lines = lines_of(&tree);
        let want = expected_sim(&tree);
        for (name, rr) in [("generated rendering", r.clone()), ("plain tab rendering", Render { trailing_newline: true, ..Default::default() })] {
            let text = render_lines(&lines, &rr);
            match parse_text(&text)? {
                Ok(got) => {
                    if got != want {
                        let detail = if got.networks != want.networks { "networks differ" } else { "machines differ" };
                        fail!("roundtrip", "parse_ne_tree", "{name}: parse(render(T)) != T ({detail}); text:\n{text}\n got: {got:?}");
                    }
                }
                Err(msg) => fail!("roundtrip", "valid_text_rejected", "{name}: a well-formed description was rejected: {msg}\ntext:\n{text}"),
            }
        }
        // one structural mutant
        let mut ml = lines.clone();
        let pick_line = |_e: &mut Entropy, pred: &dyn Fn(&Line) -> bool| -> Option<usize> {
            let idx: Vec<usize> = ml_idx(&lines, pred);
            if idx.is_empty() {
                None
            } else {
                Some(idx[(pick_seed * idx.len()) >> 16])
            }
        };
        let mutant = match which {
            0 => pick_line(e, &|l| l.role == "ip" || l.role == "mitem" || l.role == "network" || l.role == "machine").map(Mutant::WrongChildType),
            1 => pick_line(e, &|l| l.depth >= 1).map(Mutant::ExtraIndent),
            2 => pick_line(e, &|l| l.role == "network" || l.role == "machine" || l.role == "msection" || l.role == "mitem" || l.role == "ip").map(Mutant::LessIndent),
            3 => pick_line(e, &|_| true).map(Mutant::UnknownKeyword),
            4 => Some(Mutant::MissingSection { machine: (pick_seed * tree.machines.len()) >> 16, section: (pick_seed2 * 3) >> 16 }),
            5 => Some(Mutant::DuplicateNetworkId),
            _ => pick_line(e, &|l| !l.args.is_empty()).map(Mutant::DuplicateArgument),
        }
        .unwrap_or(Mutant::DuplicateNetworkId);
        match &mutant {
            Mutant::None => {}
            Mutant::WrongChildType(i) => {
                ml[*i].kw = match ml[*i].role {
                    "ip" => "Network",
                    "network" => "IP",
                    "machine" => "Network",
                    _ => match ml[*i].kw {
                        "Network" => "Protocol",
                        "Protocol" => "Application",
                        _ => "Network",
                    },
                };
            }
            Mutant::ExtraIndent(i) => ml[*i].depth += 1,
            Mutant::LessIndent(i) => {
                // a less-indented IP line after the first one of its network is simply... still an error:
                // it is parsed at the Network level where IP is not allowed
                ml[*i].depth -= 1
            }
            Mutant::UnknownKeyword(i) => ml[*i].kw = ["Foo", "Netwerk", "Apps", "Host", "Protocolz"][(pick_seed2 * 5) >> 16],
            Mutant::MissingSection { machine, section } => {
                ml.retain(|l| !(l.machine == Some(*machine) && l.section == Some(*section)));
            }
            Mutant::DuplicateNetworkId => {
                // duplicate the first network (with its IPs) at the end of the networks block
                let start = ml.iter().position(|l| l.role == "network").unwrap();
                let mut end = start + 1;
                while end < ml.len() && ml[end].role == "ip" {
                    end += 1;
                }
                let copy: Vec<Line> = ml[start..end].to_vec();
                for (k, l) in copy.into_iter().enumerate() {
                    ml.insert(end + k, l);
                }
            }
            Mutant::DuplicateArgument(i) => {
                let a = ml[*i].args[0].clone();
                ml[*i].args.push((a.0, "other".to_string()));
            }
        }
        let mtext = render_lines(&ml, &r);
        match parse_text(&mtext)? {
            Ok(sim) => fail!("structural_error_rejected", mutant_tag(&mutant), "a description with a structural error ({mutant:?}) was accepted as {} networks / {} machines; text:\n{mtext}", sim.networks.len(), sim.machines.len()),
            Err(msg) => ensure!(!msg.trim().is_empty(), "structural_error_rejected", "empty_message", "rejected with an empty message"),
        }
        ctx.nontrivial = tree.machines.len() >= 2 || escaped || r.indent_spaces || r.mixed_indent || r.crlf;
        ctx.class(mutant_tag(&mutant));
        if escaped {
            ctx.class("escaped_quote");
        }
        if r.crlf {
            ctx.class("crlf");
        }
        if r.indent_spaces || r.mixed_indent {
            ctx.class("space_indent");
        }
        if ctx.want_desc {
            ctx.desc = Some(json!({"text": render_lines(&lines, &r), "mutant": format!("{mutant:?}")}));
        }
        Ok(())
    }
}

fn ml_idx(lines: &[Line], pred: &dyn Fn(&Line) -> bool) -> Vec<usize> {
    lines.iter().enumerate().filter(|(_, l)| pred(l)).map(|(i, _)| i).collect()
}

fn mutant_tag(m: &Mutant) -> &'static str {
    match m {
        Mutant::None => "none",
        Mutant::WrongChildType(_) => "mutant_wrong_child_type",
        Mutant::ExtraIndent(_) => "mutant_extra_indent",
        Mutant::LessIndent(_) => "mutant_less_indent",
        Mutant::UnknownKeyword(_) => "mutant_unknown_keyword",
        Mutant::MissingSection { .. } => "mutant_missing_section",
        Mutant::DuplicateNetworkId => "mutant_duplicate_network_id",
        Mutant::DuplicateArgument(_) => "mutant_duplicate_argument",
    }
}

// ------------------------------------------------------------------------------------------------

pub struct NdlNoPanic;

const TOKENS: [&str; 34] = ["\u{2003}", "\u{3000}", "\u{a0}", "\u{2028}", "\u{85}", "\u{1680}", "[", "]", "'", "=", "\t", "    ", "\n", "\r\n", " ", "\\", "\\'", "[Networks]", "[Network id='1']", "[IP ip='1.2.3.4']", "[IPtype x='1']", "[Machines]", "[Machine]", "[Protocols]", "[Applications]", "[Template]", "é", "世界", "\u{feff}", "name='", "id=", "''", "[]", "\0"];

impl Check for NdlNoPanic {
    fn id(&self) -> &'static str {
        "C14.ndl"
    }
    fn rule(&self) -> String {
        "generated: a valid rendered description (as in C19) mutated 1..6 times by token insertion (brackets, quotes, =, tabs, 4 spaces, newlines, CRLF, backslashes, whole well-formed lines, keywords incl. IPtype, non-ASCII, BOM, NUL) at a character boundary, deletion of a character range, truncation, re-indentation of one line, replacement of one character, or replacement of an ASCII letter (of a section keyword) by a look-alike whose case forms differ in length (Kelvin sign, long s, dotted/dotless i, Angstrom sign); always valid UTF-8 (the API takes text); oracle: core_parser returns Ok or Err, never unwinds. non-trivial: the mutated text still contains at least one well-formed section line. distinct: hash of decoded text".into()
    }
    fn max_entropy(&self) -> usize {
        500
    }
    fn run(&self, e: &mut Entropy, ctx: &mut Ctx) -> Result<(), Failure> {
        // the mutation plan is decoded first so that it is not starved of entropy by the tree
        let nmut = 1 + e.choose(6);
        let plan: Vec<(usize, u16, usize, usize, bool)> = (0..nmut).map(|_| (e.weighted(&[5, 3, 2, 2, 2]), e.u16(), e.choose(TOKENS.len()), e.choose(12), e.bool())).collect();
        let mut escaped = false;
        let tree = gen_tree(e, &mut escaped);
        let r = gen_render(e);
        let mut text = render_lines(&lines_of(&tree), &r);
        let boundary = |s: &str, mut i: usize| -> usize {
            i = i.min(s.len());
            while !s.is_char_boundary(i) {
                i -= 1;
            }
            i
        };
        let at = |text: &str, seed: u16| -> usize { (seed as usize * (text.len() + 1)) >> 16 };
        for (kind, seed, tok, extra, flag) in plan {
            // (a third of the character replacements are look-alike replacements; decided from `extra` so that the decoding of
            // the other kinds stays what it was when earlier replay files were written)
            let kind = if kind == 4 && extra % 3 == 0 { 5 } else { kind };
            match kind {
                0 => {
                    // half of the insertions go to a structural position: right after a ']' or right before a '['
                    let structural: Vec<usize> = text.char_indices().filter(|(_, c)| *c == ']' || *c == '[').map(|(i, c)| if c == ']' { i + 1 } else { i }).collect();
                    let i = if !structural.is_empty() && flag { structural[(seed as usize * structural.len()) >> 16] } else { boundary(&text, at(&text, seed)) };
                    text.insert_str(i, TOKENS[tok]);
                    ctx.class("token_inserted");
                }
                1 => {
                    let i = boundary(&text, at(&text, seed));
                    let j = boundary(&text, (i + 1 + extra).min(text.len()));
                    if i < j {
                        text.replace_range(i..j, "");
                    }
                    ctx.class("range_deleted");
                }
                2 => {
                    let i = boundary(&text, at(&text, seed));
                    text.truncate(i);
                    ctx.class("truncated");
                }
                3 => {
                    let lines: Vec<&str> = text.split('\n').collect();
                    let li = (seed as usize * lines.len()) >> 16;
                    let mut out: Vec<String> = lines.iter().map(|s| s.to_string()).collect();
                    let trimmed = out[li].trim_start_matches(['\t', ' ']).to_string();
                    let nt = extra % 6;
                    out[li] = format!("{}{}", if flag { "\t".repeat(nt) } else { " ".repeat(nt * 2) }, trimmed);
                    text = out.join("\n");
                    ctx.class("reindented");
                }
                5 => {
                    // an ASCII letter (preferably of a section keyword) replaced by a look-alike whose upper/lower case
                    // forms differ in encoded length: Kelvin sign, long s, dotted / dotless i, Angstrom sign
                    let in_keyword: Vec<usize> = {
                        let mut v = vec![];
                        let mut inside = false;
                        for (i, c) in text.char_indices() {
                            match c {
                                '[' => inside = true,
                                ']' | ' ' | '\n' => inside = false,
                                _ if inside && c.is_ascii_alphabetic() => v.push(i),
                                _ => {}
                            }
                        }
                        v
                    };
                    let letters: Vec<usize> = if !in_keyword.is_empty() && flag { in_keyword } else { text.char_indices().filter(|(_, c)| c.is_ascii_alphabetic()).map(|(i, _)| i).collect() };
                    if !letters.is_empty() {
                        let i = letters[(seed as usize * letters.len()) >> 16];
                        let c = text[i..].chars().next().unwrap();
                        let rep = match c {
                            'k' | 'K' => "\u{212a}",
                            's' | 'S' => "\u{17f}",
                            'i' => "\u{131}",
                            'I' => "\u{130}",
                            'a' | 'A' => "\u{212b}",
                            _ => ["\u{ff21}", "\u{1e9e}", "\u{130}", "\u{212a}"][extra % 4],
                        };
                        text.replace_range(i..i + 1, rep);
                    }
                    ctx.class("letter_replaced_by_case_changing_lookalike");
                }
                _ => {
                    let i = boundary(&text, at(&text, seed));
                    let j = boundary(&text, i + 1);
                    if i < j && j <= text.len() {
                        let c = ["[", "]", "'", "\t", "\n", "x", " ", "\\"][extra % 8];
                        text.replace_range(i..j, c);
                    }
                    ctx.class("char_replaced");
                }
            }
        }
        let r = parse_text(&text)?;
        if r.is_ok() {
            ctx.class("still_accepted");
        }
        ctx.nontrivial = text.lines().any(|l| {
            let t = l.trim();
            t.starts_with('[') && t.ends_with(']') && t.len() > 4
        });
        if ctx.want_desc {
            ctx.desc = Some(json!({"text": text, "accepted": r.is_ok()}));
        }
        Ok(())
    }
}

// ------------------------------------------------------------------------------------------------
// C19 (run part): a valid description builds the described simulation

pub struct NdlRun;

fn arg(k: &str, v: impl Into<String>) -> (String, String) {
    (k.to_string(), v.into())
}

impl Check for NdlRun {
    fn id(&self) -> &'static str {
        "C19.run"
    }
    fn rule(&self) -> String {
        "generated: runnable descriptions: 1..2 networks with public ip/range entries; either (A) 1..3 receiving machines with a capture application (type count or message, all sharing one factory so that the run exits exactly when every capture is satisfied), 1..4 sending machines (count 1..4, send_message to a receiver by machine name or by address, optionally through a forward machine), protocols listed explicitly in any order or added by auto-protocol, ARP on every machine or on none; or (B) a ping_pong pair; rendered in every indentation / line-ending / case variant of C19.parse; each capture expects exactly the number of messages (or the exact message) the described senders are told to send to it; oracle: generate_and_run_sim returns Some(Exited) under virtual time within the timeout, never None (parse error), never TimedOut (a described message did not arrive), and no task panics. non-trivial: >= 2 machines wired by name, or a sender count > 1, or a forward hop, or ARP. distinct: hash of decoded description".into()
    }
    fn assumptions(&self) -> Vec<String> {
        vec![
            "only argument combinations the generator documents are produced (ports, ip inside the machine's network pool, counts only on sending machines, no arguments on the ARP protocol entry)".into(),
            "forward machines are only generated without ARP (Forward opens its session before the barrier: open known finding of C13)".into(),
        ]
    }
    fn max_entropy(&self) -> usize {
        300
    }
    fn run(&self, e: &mut Entropy, ctx: &mut Ctx) -> Result<(), Failure> {
        let r = gen_render(e);
        let kind_b = e.chance(1, 6);
        let arp = !kind_b && e.chance(1, 3);
        let auto = e.chance(1, 3);
        let nnets = 1 + e.choose(2);
        let mut nets = vec![];
        for i in 0..nnets {
            let ips = if e.bool() {
                vec![vec![arg("range", format!("123.45.{}.10-90", 60 + i))]]
            } else {
                vec![vec![arg("range", format!("123.45.{}.10-40", 60 + i))], vec![arg("range", format!("123.45.{}.41-90", 60 + i))], vec![arg("ip", format!("123.45.{}.200", 60 + i))]]
            };
            nets.push(NetT { args: vec![arg("id", format!("{}", i + 1))], ips });
        }
        let use_auto = auto && arp; // auto-protocol always brings ARP, so it is only used in ARP descriptions
        let protocols = |e: &mut Entropy| -> Vec<Args> {
            let mut p = vec![vec![arg("name", "IPv4")], vec![arg("name", "UDP")]];
            if arp {
                p.push(vec![arg("name", "ARP")]);
            }
            if use_auto {
                // auto-protocol adds IPv4 and ARP when they are missing
                p.retain(|x| x[0].1 == "UDP" || e.bool());
            }
            if e.bool() {
                p.reverse();
            }
            p
        };
        let machine_nets = |e: &mut Entropy| -> Vec<Args> {
            let mut v = vec![vec![arg("id", "1")]];
            if nnets == 2 && e.chance(1, 3) {
                v.push(vec![arg("id", "2")]);
            }
            v
        };
        let order = |e: &mut Entropy| *e.pick(&[[0, 1, 2], [0, 2, 1], [1, 0, 2], [1, 2, 0], [2, 0, 1], [2, 1, 0]]);
        let margs = |name: Option<String>, count: Option<usize>| -> Args {
            let mut a = vec![];
            if let Some(n) = name {
                a.push(arg("name", n));
            }
            if let Some(c) = count {
                a.push(arg("count", format!("{c}")));
            }
            if use_auto {
                a.push(arg("auto-protocol", "true"));
            }
            a
        };
        let mut machines: Vec<MachT> = vec![];
        let mut by_name = false;
        let mut forward_hop = false;
        let mut big_count = false;
        if kind_b {
            let p1 = format!("{}", 2000 + e.choose(1000));
            let p2 = format!("0x{:x}", 0xb000 + e.choose(0xfff));
            let to2 = if e.bool() {
                by_name = true;
                "pong".to_string()
            } else {
                "123.45.60.12".to_string()
            };
            machines.push(MachT { args: margs(Some("ping".into()), None), networks: machine_nets(e), protocols: protocols(e), applications: vec![vec![arg("name", "ping_pong"), arg("ip", "123.45.60.11"), arg("to", to2), arg("local_port", p1.clone()), arg("remote_port", p2.clone()), arg("starter", "true")]], order: order(e) });
            machines.push(MachT { args: margs(Some("pong".into()), None), networks: machine_nets(e), protocols: protocols(e), applications: vec![vec![arg("name", "ping_pong"), arg("ip", "123.45.60.12"), arg("to", "123.45.60.11"), arg("local_port", p2), arg("remote_port", p1), arg("starter", "false")]], order: order(e) });
            if e.bool() {
                machines.swap(0, 1);
                // names are resolved in a first pass, so the order of machines does not matter
            }
        } else {
            let nrecv = 1 + e.choose(3);
            let nsend = 1 + e.choose(4);
            let with_forward = !arp && e.chance(1, 3);
            // who sends what to whom
            let mut expected: Vec<usize> = vec![0; nrecv];
            let mut sender_specs = vec![];
            let message = {
                let mut esc = false;
                let m = gen_value(e, &mut esc).replace('\n', " ").replace('\t', " ");
                if m.trim().is_empty() {
                    "hello".to_string()
                } else {
                    m
                }
            };
            for s in 0..nsend {
                let to = e.choose(nrecv);
                let count = if e.chance(1, 3) { 2 + e.choose(3) } else { 1 };
                if count > 1 {
                    big_count = true;
                }
                expected[to] += count;
                sender_specs.push((s, to, count));
            }
            let port = |i: usize| format!("0x{:x}", 0xbe00 + i);
            for rcv in 0..nrecv {
                let ip = format!("123.45.60.{}", 20 + rcv);
                let mut app = vec![arg("name", "capture"), arg("ip", ip), arg("port", port(rcv)), arg("factory", "f1")];
                if expected[rcv] == 1 && e.bool() {
                    app.push(arg("type", "message"));
                    app.push(arg("message", message.clone()));
                } else if expected[rcv] >= 1 {
                    app.push(arg("type", "count"));
                    app.push(arg("message_count", format!("{}", expected[rcv])));
                } else {
                    // nobody sends to it: it would never be satisfied; give it no capture but a second sender target instead
                    continue;
                }
                if e.bool() {
                    app.reverse();
                }
                machines.push(MachT { args: margs(Some(format!("recv{rcv}")), None), networks: machine_nets(e), protocols: protocols(e), applications: vec![app], order: order(e) });
            }
            let fwd_target = if with_forward { Some(sender_specs[0].1) } else { None };
            if let Some(t) = fwd_target {
                forward_hop = true;
                machines.push(MachT {
                    args: margs(Some("fwd".into()), None),
                    networks: machine_nets(e),
                    protocols: protocols(e),
                    applications: vec![vec![arg("name", "forward"), arg("ip", "123.45.60.50"), arg("to", if e.bool() { by_name = true; format!("recv{t}") } else { format!("123.45.60.{}", 20 + t) }), arg("local_port", "0xf0f0"), arg("remote_port", port(t))]],
                    order: order(e),
                });
            }
            for (s, to, count) in &sender_specs {
                let via_forward = fwd_target.is_some() && *s == 0;
                let (to_arg, port_arg) = if via_forward {
                    (if e.bool() { by_name = true; "fwd".to_string() } else { "123.45.60.50".to_string() }, "0xf0f0".to_string())
                } else if e.bool() {
                    by_name = true;
                    (format!("recv{to}"), port(*to))
                } else {
                    (format!("123.45.60.{}", 20 + to), port(*to))
                };
                let mut app = vec![arg("name", "send_message"), arg("message", message.clone()), arg("to", to_arg), arg("port", port_arg)];
                if e.chance(1, 4) && *count == 1 {
                    app.push(arg("ip", format!("123.45.60.{}", 70 + s)));
                }
                if e.bool() {
                    app.reverse();
                }
                machines.push(MachT { args: margs(if e.bool() { Some(format!("send{s}")) } else { None }, if *count > 1 || e.chance(1, 4) { Some(*count) } else { None }), networks: machine_nets(e), protocols: protocols(e), applications: vec![app], order: order(e) });
            }
            // receivers need not come first: names are collected in a first pass
            if e.bool() {
                machines.reverse();
            }
        }
        let tree = Tree { nets, machines, machines_first: e.chance(1, 4) };
        let text = render_lines(&lines_of(&tree), &r);
        let path = write_case_file(&text, "run");
        let p2 = path.clone();
        let (out, panics) = crate::sim::run_virtual(async move { elvis::ndl::generate_and_run_sim(p2, Some(std::time::Duration::from_secs(10))).await });
        let _ = std::fs::remove_file(&path);
        if ctx.want_desc {
            ctx.desc = Some(json!({"text": text, "result": format!("{out:?}")}));
        }
        if !panics.is_empty() {
            let mut f = panic_failure(&panics);
            f.oracle = "no_panic_in_simulation".into();
            f.message = format!("{}\ntext:\n{text}", f.message);
            return Err(f);
        }
        match out {
            Some(Some(elvis_core::ExitStatus::Exited)) => {}
            Some(None) => fail!("valid_description_runs", "rejected", "a valid description was rejected by the parser; text:\n{text}"),
            Some(Some(other)) => fail!("valid_description_runs", if other == elvis_core::ExitStatus::TimedOut { "timed_out" } else { "wrong_status" }, "running the description returned {other:?} instead of Exited: a described message did not arrive; text:\n{text}"),
            None => fail!("valid_description_runs", "panicked", "the run panicked; text:\n{text}"),
        }
        ctx.nontrivial = by_name || big_count || forward_hop || arp;
        if by_name {
            ctx.class("wired_by_name");
        }
        if big_count {
            ctx.class("sender_count_above_1");
        }
        if forward_hop {
            ctx.class("forward_hop");
        }
        if arp {
            ctx.class("with_arp");
        }
        if kind_b {
            ctx.class("ping_pong_pair");
        }
        Ok(())
    }
}
