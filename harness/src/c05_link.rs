//! C05: the simulated link delivers frames as configured, to the right taps (exact virtual time).

use crate::engine::*;
use crate::sim::*;
use crate::{ensure, fail};
use async_trait::async_trait;
use elvis_core::machine::Machine;
use elvis_core::message::Message;
use elvis_core::network::{Baud, Latency, Mac, NetworkBuilder, Throughput};
use elvis_core::protocol::{DemuxError, StartError};
use elvis_core::protocols::pci::{self, Pci};
use elvis_core::session::SendError;
use elvis_core::{run_internet_with_timeout, Control, Network, Protocol, Session, Shutdown};
use serde_json::json;
use std::any::TypeId;
use std::sync::{Arc, Mutex};
use std::time::Duration;
use tokio::sync::Barrier;

#[derive(Debug, Clone)]
struct SendPlan {
    at_ms: u64,
    slot: usize,
    dest: Dest,
    len: usize,
    tag: u32,
}

#[derive(Debug, Clone, Copy, PartialEq)]
enum Dest {
    Tap { machine: usize, slot: usize },
    Unknown,
    BroadcastMac,
    NoMac,
}

#[derive(Debug, Clone)]
struct SendRec {
    tag: u32,
    machine: usize,
    slot: usize,
    t: Duration,
    result: Result<(), SendError>,
    resolved_dest: Option<Mac>,
}

struct Probe {
    machine: usize,
    wire: Arc<Wire>,
    log: DemuxLog,
    plans: Vec<SendPlan>,
    sends: Arc<Mutex<Vec<SendRec>>>,
    /// MAC of tap (machine, slot), filled before the run
    macs: Arc<Vec<Vec<Mac>>>,
}

fn payload(tag: u32, len: usize) -> Vec<u8> {
    let t = tag.to_be_bytes();
    (0..len).map(|i| if i < 4 { t[i] } else { (i as u8) ^ t[3] }).collect()
}

#[async_trait]
impl Protocol for Probe {
    async fn start(&self, _shutdown: Shutdown, initialized: Arc<Barrier>, machine: Arc<Machine>) -> Result<(), StartError> {
        initialized.wait().await;
        let t0 = tokio::time::Instant::now();
        self.wire.mark_start();
        let pci = machine.protocol::<Pci>().unwrap();
        let mut plans = self.plans.clone();
        plans.sort_by_key(|p| p.at_ms);
        for p in plans {
            tokio::time::sleep_until(t0 + Duration::from_millis(p.at_ms)).await;
            let dest = match p.dest {
                Dest::Tap { machine, slot } => Some(self.macs[machine][slot]),
                Dest::Unknown => Some(0x0000_7777_0000_0000 + p.tag as u64),
                Dest::BroadcastMac => Some(Network::BROADCAST_MAC),
                Dest::NoMac => None,
            };
            let session = pci.open(p.slot as u32);
            let r = session.send_pci(Message::new(payload(p.tag, p.len)), dest, TypeId::of::<Probe>());
            self.sends.lock().unwrap().push(SendRec { tag: p.tag, machine: self.machine, slot: p.slot, t: self.wire.now(), result: r, resolved_dest: dest });
        }
        Ok(())
    }

    fn demux(&self, message: Message, _caller: Arc<dyn Session>, control: Control, _machine: Arc<Machine>) -> Result<(), DemuxError> {
        self.log.lock().unwrap().push(DemuxRec { order: self.wire.tick(), t: self.wire.now(), machine: self.machine, app: 0, payload: message.to_vec(), pci: control.get::<pci::DemuxInfo>().copied(), ipv4: None, udp: None, endpoints: None });
        Ok(())
    }
}

pub struct LinkLayer;

struct NetCfg {
    mtu: u16,
    /// microseconds
    lat_base: u64,
    lat_rand: u64,
    thr_base: u64,
    thr_rand: u64,
}

impl Check for LinkLayer {
    fn id(&self) -> &'static str {
        "C05"
    }
    fn rule(&self) -> String {
        "generated: 1..3 networks (MTU 20..2000 or unlimited, latency none/constant/variable, throughput none/constant/variable), 1..6 machines each attached to 1..3 taps on any of the networks (also twice to the same network), each with a harness protocol registered as the frame target; 1..12 sends (time 0..50 ms with many coinciding, sender tap, destination in {a tap on that network, an unknown MAC, the broadcast MAC, None}, length in {0, MTU-1, MTU, MTU+1, small, random}) run under virtual time; oracle: send_pci is Err(Mtu(mtu)) exactly when len > MTU and then no frame appears on the wire; a unicast frame is demuxed exactly once, on the owner tap only, an unknown MAC by nobody (seen by the frame hook only), a broadcast exactly once on every other tap of the network; payload and DemuxInfo{slot, source, destination, mtu} exact; all MACs of a network distinct; delivery time - send time >= latency base + own serialisation time; for every frame the serialisation times (len*1000/T_max ms) of all frames delivered no later fit between the first send and its delivery. non-trivial: >= 3 taps on the network of a unicast frame, or a length within 1 of the MTU, or >= 2 concurrent frames on a throughput-limited network. distinct: hash of decoded configuration".into()
    }
    fn assumptions(&self) -> Vec<String> {
        vec!["whether the sender's own tap also hears its broadcast is not asserted either way (the statement says 'every other tap')".into()]
    }
    fn max_entropy(&self) -> usize {
        300
    }
    fn run(&self, e: &mut Entropy, ctx: &mut Ctx) -> Result<(), Failure> {
        let nnets = 1 + e.choose(3);
        let mut cfgs = vec![];
        for _ in 0..nnets {
            let mtu = match e.weighted(&[2, 4, 2]) {
                0 => u16::MAX,
                1 => 20 + e.choose(200) as u16,
                _ => 200 + e.choose(1800) as u16,
            };
            // microseconds: whole milliseconds as well as sub-millisecond and fractional values
            let lat = |e: &mut Entropy| -> u64 {
                match e.weighted(&[3, 2, 2]) {
                    0 => 1000 * (1 + e.choose(50) as u64),
                    1 => 100 + e.choose(900) as u64,
                    _ => 1000 * (1 + e.choose(20) as u64) + 1 + e.choose(999) as u64,
                }
            };
            let (lat_base, lat_rand) = match e.weighted(&[2, 2, 1]) {
                0 => (0, 0),
                1 => (lat(e), 0),
                _ => (lat(e), 1 + e.choose(30_000) as u64),
            };
            let (thr_base, thr_rand) = match e.weighted(&[3, 2, 1]) {
                0 => (0, 0),
                1 => (1000 + e.choose(200_000) as u64, 0),
                _ => (1000 + e.choose(200_000) as u64, 1 + e.choose(50_000) as u64),
            };
            cfgs.push(NetCfg { mtu, lat_base, lat_rand, thr_base, thr_rand });
        }
        let nm = 1 + e.choose(6);
        // attachments[machine] = list of network indices (slot order)
        let mut attach: Vec<Vec<usize>> = vec![];
        for _ in 0..nm {
            let k = 1 + e.weighted(&[5, 3, 1]);
            attach.push((0..k).map(|_| e.choose(nnets)).collect());
        }
        let nsends = 1 + e.choose(12);
        let mut plans: Vec<(usize, SendPlan)> = vec![];
        let mut near_mtu = false;
        for tag in 0..nsends {
            let m = e.choose(nm);
            let slot = e.choose(attach[m].len());
            let net = attach[m][slot];
            let mtu = cfgs[net].mtu as usize;
            // candidate taps on that network
            let taps: Vec<(usize, usize)> = attach.iter().enumerate().flat_map(|(mi, a)| a.iter().enumerate().filter(|(_, n)| **n == net).map(move |(si, _)| (mi, si))).collect();
            let dest = match e.weighted(&[5, 1, 2, 1]) {
                0 => {
                    let (dm, ds) = taps[e.choose(taps.len())];
                    Dest::Tap { machine: dm, slot: ds }
                }
                1 => Dest::Unknown,
                2 => Dest::BroadcastMac,
                _ => Dest::NoMac,
            };
            let len = match e.weighted(&[1, 2, 2, 2, 3, 2]) {
                0 => 0,
                1 => mtu.saturating_sub(1).min(70_000),
                2 => mtu.min(70_000),
                3 => (mtu + 1).min(70_000),
                4 => e.choose(64),
                _ => e.choose(mtu.min(3000) + 10),
            };
            if mtu < 65535 && (len + 1 >= mtu && len <= mtu + 1) {
                near_mtu = true;
            }
            let at_ms = match e.weighted(&[3, 2, 2]) {
                0 => 0,
                1 => e.choose(3) as u64,
                _ => e.choose(50) as u64,
            };
            plans.push((m, SendPlan { at_ms, slot, dest, len, tag: 0x5100_0000 + tag as u32 }));
        }

        // build and run
        let wire = Wire::new();
        let log: DemuxLog = Default::default();
        let sends: Arc<Mutex<Vec<SendRec>>> = Default::default();
        let nets: Vec<Arc<Network>> = cfgs
            .iter()
            .map(|c| {
                let mut b = NetworkBuilder::new();
                if c.mtu != u16::MAX {
                    b = b.mtu(c.mtu);
                }
                if c.lat_base > 0 {
                    b = b.latency(if c.lat_rand > 0 { Latency::variable(Duration::from_micros(c.lat_base), Duration::from_micros(c.lat_rand)) } else { Latency::constant(Duration::from_micros(c.lat_base)) });
                }
                if c.thr_base > 0 {
                    b = b.throughput(if c.thr_rand > 0 { Throughput::variable(Baud::bytes_per_second(c.thr_base), Baud::bytes_per_second(c.thr_rand)) } else { Throughput::constant(Baud::bytes_per_second(c.thr_base)) });
                }
                let n = b.build();
                n.verif_set_hook(Some(wire.clone()));
                n
            })
            .collect();
        let net_ids: Vec<u64> = nets.iter().map(|n| n.verif_id()).collect();
        let pcis: Vec<Pci> = attach.iter().map(|a| Pci::new(a.iter().map(|n| nets[*n].clone()))).collect();
        let macs: Arc<Vec<Vec<Mac>>> = Arc::new(pcis.iter().map(|p| p.mac_addresses().collect()).collect());
        // distinct MACs per network
        for n in 0..nnets {
            let mut seen = std::collections::HashSet::new();
            for (mi, a) in attach.iter().enumerate() {
                for (si, nn) in a.iter().enumerate() {
                    if *nn == n {
                        ensure!(seen.insert(macs[mi][si]), "distinct_macs", "duplicate_mac", "network {n}: MAC {} is assigned to two taps", macs[mi][si]);
                    }
                }
            }
        }
        let mut machines = vec![];
        for (mi, pci) in pcis.into_iter().enumerate() {
            let probe = Probe { machine: mi, wire: wire.clone(), log: log.clone(), plans: plans.iter().filter(|(m, _)| *m == mi).map(|(_, p)| p.clone()).collect(), sends: sends.clone(), macs: macs.clone() };
            machines.push(Machine::new().with(pci).with(probe).arc());
        }
        let horizon = Duration::from_secs(3600);
        let _release = ReleaseOnDrop(machines.clone());
        let (_status, panics): (Option<_>, _) = run_virtual(async { run_internet_with_timeout(&machines, horizon).await });
        panics_to_failure(&panics)?;

        let frames = wire.snapshot();
        let demux = log.lock().unwrap().clone();
        let sends = sends.lock().unwrap().clone();
        ensure!(sends.len() == plans.len(), "harness", "sends_missing", "only {} of {} sends were executed", sends.len(), plans.len());
        let mut concurrent_throttled = false;
        let mut three_taps_unicast = false;
        for (m, p) in &plans {
            let s = sends.iter().find(|s| s.tag == p.tag).unwrap();
            let net = attach[*m][p.slot];
            let c = &cfgs[net];
            let on_wire: Vec<&FrameRec> = frames.iter().filter(|f| p.len >= 4 && f.net == net_ids[net] && f.sender == macs[*m][p.slot] && f.bytes == payload(p.tag, p.len)).collect();
            if p.len > c.mtu as usize {
                ensure!(s.result == Err(SendError::Mtu(c.mtu)), "mtu_refusal", "oversize_accepted", "send of {} bytes on a network with MTU {} returned {:?}", p.len, c.mtu, s.result);
                if p.len >= 4 {
                    ensure!(on_wire.is_empty(), "mtu_refusal", "oversize_on_wire", "a refused frame of {} bytes appeared on the wire", p.len);
                }
                continue;
            }
            ensure!(s.result == Ok(()), "mtu_refusal", "fitting_frame_refused", "send of {} bytes on a network with MTU {} returned {:?}", p.len, c.mtu, s.result);
            if p.len < 4 {
                continue; // too short to carry its tag; covered by the aggregate count below
            }
            ensure!(on_wire.len() == 1, "exactly_once", "frames_on_wire", "frame {:#x}: {} frames on the wire", p.tag, on_wire.len());
            let f = on_wire[0];
            let got: Vec<&DemuxRec> = demux.iter().filter(|d| d.payload == f.bytes).collect();
            let taps: Vec<(usize, usize)> = attach.iter().enumerate().flat_map(|(mi, a)| a.iter().enumerate().filter(|(_, n)| **n == net).map(move |(si, _)| (mi, si))).collect();
            let src_mac = macs[*m][p.slot];
            let check_info = |d: &DemuxRec, mi: usize, si: usize| -> Result<(), Failure> {
                let info = d.pci.ok_or(Failure::new("demux_info", "missing", "no pci::DemuxInfo in Control".into()))?;
                ensure!(info.slot as usize == si && info.source == src_mac && info.destination == s.resolved_dest && info.mtu == c.mtu, "demux_info", "wrong", "frame {:#x} on machine {mi}: DemuxInfo {info:?}, expected slot {si} source {src_mac} destination {:?} mtu {}", p.tag, s.resolved_dest, c.mtu);
                Ok(())
            };
            match p.dest {
                Dest::Tap { machine: dm, slot: ds } => {
                    ensure!(got.len() == 1, "unicast", "delivery_count", "unicast frame {:#x} to machine {dm} slot {ds} was demuxed {} times: {:?}", p.tag, got.len(), got.iter().map(|d| (d.machine, d.pci.map(|i| i.slot))).collect::<Vec<_>>());
                    ensure!(got[0].machine == dm, "unicast", "wrong_machine", "unicast frame {:#x} for machine {dm} reached machine {}", p.tag, got[0].machine);
                    check_info(got[0], dm, ds)?;
                    if taps.len() >= 3 {
                        three_taps_unicast = true;
                    }
                }
                Dest::Unknown => {
                    ensure!(got.is_empty(), "unknown_mac", "delivered", "frame {:#x} to an unknown MAC was demuxed on machine {}", p.tag, got[0].machine);
                    ensure!(f.undeliverable && f.deliveries.is_empty(), "unknown_mac", "hook", "frame to an unknown MAC: hook saw deliveries {:?}", f.deliveries);
                }
                Dest::BroadcastMac | Dest::NoMac => {
                    for (mi, si) in &taps {
                        let n = got.iter().filter(|d| d.machine == *mi && d.pci.map(|i| i.slot as usize) == Some(*si)).count();
                        if (*mi, *si) == (*m, p.slot) {
                            ensure!(n <= 1, "broadcast", "own_tap_multiple", "broadcast frame {:#x} reached the sender's own tap {n} times", p.tag);
                        } else {
                            ensure!(n == 1, "broadcast", "delivery_count", "broadcast frame {:#x}: tap (machine {mi}, slot {si}) got it {n} times", p.tag);
                        }
                    }
                    for d in &got {
                        let si = d.pci.map(|i| i.slot as usize).unwrap_or(99);
                        ensure!(taps.contains(&(d.machine, si)), "broadcast", "wrong_network", "broadcast frame {:#x} reached machine {} slot {si}, which is not on its network", p.tag, d.machine);
                        check_info(d, d.machine, si)?;
                    }
                }
            }
            // timing lower bounds
            let tmax = c.thr_base + c.thr_rand;
            let ser = |len: usize| -> u64 { if c.thr_base == 0 { 0 } else { len as u64 * 1000 / tmax } };
            for d in &got {
                let dt = d.t.saturating_sub(s.t);
                let min = Duration::from_micros(c.lat_base) + Duration::from_millis(ser(p.len));
                ensure!(dt >= min, "timing", "too_early", "frame {:#x} ({} bytes) was delivered {:?} after it was sent; latency base {} us + serialisation {} ms", p.tag, p.len, dt, c.lat_base, ser(p.len));
            }
        }
        // aggregate throughput bound per network
        for (ni, c) in cfgs.iter().enumerate() {
            if c.thr_base == 0 {
                continue;
            }
            let tmax = c.thr_base + c.thr_rand;
            let mut fs: Vec<(&FrameRec, Duration)> = frames.iter().filter(|f| f.net == net_ids[ni] && !f.deliveries.is_empty()).map(|f| (f, f.deliveries.iter().map(|d| d.1).min().unwrap())).collect();
            fs.sort_by_key(|x| x.1);
            if fs.len() >= 2 && fs.iter().any(|a| fs.iter().any(|b| a.0.seq != b.0.seq && a.0.t < b.1 && b.0.t < a.1)) {
                concurrent_throttled = true;
            }
            for k in 0..fs.len() {
                let total_ms: u64 = fs[..=k].iter().map(|(f, _)| f.bytes.len() as u64 * 1000 / tmax).sum();
                let first = fs[..=k].iter().map(|(f, _)| f.t).min().unwrap();
                let avail = fs[k].1.saturating_sub(first).saturating_sub(Duration::from_micros(c.lat_base));
                ensure!(avail >= Duration::from_millis(total_ms), "timing", "faster_than_throughput", "network {ni}: {} frames totalling {} ms of serialisation at {} B/s were delivered within {:?} (latency base {} us)", k + 1, total_ms, tmax, avail, c.lat_base);
            }
        }
        // nothing unexpected was demuxed: every demux corresponds to an accepted send
        for d in &demux {
            let ok = plans.iter().any(|(_, p)| payload(p.tag, p.len) == d.payload);
            ensure!(ok, "payload_intact", "unknown_payload", "machine {} demuxed a payload that nobody sent: {}", d.machine, hex(&d.payload[..d.payload.len().min(16)]));
        }
        ctx.nontrivial = three_taps_unicast || near_mtu || concurrent_throttled;
        if three_taps_unicast {
            ctx.class("unicast_with_3_or_more_taps");
        }
        if near_mtu {
            ctx.class("length_within_1_of_mtu");
        }
        if concurrent_throttled {
            ctx.class("concurrent_frames_on_throttled_network");
        }
        if ctx.want_desc {
            ctx.desc = Some(json!({
                "networks": cfgs.iter().map(|c| json!({"mtu": c.mtu, "latency_us": [c.lat_base, c.lat_rand], "throughput_Bps": [c.thr_base, c.thr_rand]})).collect::<Vec<_>>(),
                "attachments": attach,
                "sends": plans.iter().map(|(m, p)| format!("m{m} slot {} t={}ms len {} -> {:?}", p.slot, p.at_ms, p.len, p.dest)).collect::<Vec<_>>(),
                "frames_on_wire": frames.len(), "demux_calls": demux.len(),
            }));
        }
        let _ = fail_unused();
        Ok(())
    }
}

fn fail_unused() -> Result<(), Failure> {
    if false {
        fail!("x", "x", "x");
    }
    Ok(())
}
