//! C13: a simulation starts behind a barrier and ends with the requested status.

use crate::engine::*;
use crate::{ensure, fail};
use crate::sim::*;
use async_trait::async_trait;
use elvis::applications::{Capture, Forward, PingPong, SendMessage};
use elvis_core::ip_table::IpTable;
use elvis_core::machine::Machine;
use elvis_core::message::Message;
use elvis_core::network::NetworkBuilder;
use elvis_core::protocol::{DemuxError, StartError};
use elvis_core::protocols::ipv4::{Ipv4Address, Recipient};
use elvis_core::protocols::pci::Pci;
use elvis_core::protocols::{Arp, DnsServer, Endpoint, Endpoints, Ipv4, SocketAPI, Tcp, Udp};
use elvis_core::shutdown::ExitStatus;
use elvis_core::{run_internet, run_internet_with_timeout, Control, Protocol, Session, Shutdown};
use serde_json::json;
use std::sync::{Arc, Mutex};
use std::time::Duration;
use tokio::sync::Barrier;

#[derive(Debug, Clone, PartialEq)]
enum Behaviour {
    /// sleeps `ms` before reaching the barrier
    SlowInit(u64),
    /// `ms` after the barrier asks for a shutdown with Some(status) or the plain Exited
    Shutter(u64, Option<u32>),
    NeverReturns,
    NeverReachesBarrier,
}

#[derive(Default)]
struct Stamps {
    /// (machine, logical order, virtual time) when a harness protocol reached the barrier
    reached: Vec<(usize, u64, Duration)>,
    passed: Vec<(usize, u64, Duration)>,
    /// (logical order, requested status) taken immediately before a shutdown request (no await in between)
    requests: Vec<(u64, Option<u32>, Duration)>,
}

struct Actor<const N: usize> {
    machine: usize,
    behaviour: Behaviour,
    wire: Arc<Wire>,
    stamps: Arc<Mutex<Stamps>>,
}

#[async_trait]
impl<const N: usize> Protocol for Actor<N> {
    async fn start(&self, shutdown: Shutdown, initialized: Arc<Barrier>, _machine: Arc<Machine>) -> Result<(), StartError> {
        match self.behaviour {
            Behaviour::SlowInit(ms) => tokio::time::sleep(Duration::from_millis(ms)).await,
            Behaviour::NeverReachesBarrier => {
                std::future::pending::<()>().await;
            }
            _ => {}
        }
        self.stamps.lock().unwrap().reached.push((self.machine, self.wire.tick(), self.wire.now()));
        initialized.wait().await;
        self.stamps.lock().unwrap().passed.push((self.machine, self.wire.tick(), self.wire.now()));
        match self.behaviour {
            Behaviour::Shutter(ms, status) => {
                tokio::time::sleep(Duration::from_millis(ms)).await;
                self.stamps.lock().unwrap().requests.push((self.wire.tick(), status, self.wire.now()));
                match status {
                    Some(n) => shutdown.shut_down_with_status(ExitStatus::Status(n)),
                    None => shutdown.shut_down(),
                }
                Ok(())
            }
            Behaviour::NeverReturns => {
                let _keep = shutdown;
                std::future::pending::<()>().await;
                Ok(())
            }
            _ => Ok(()),
        }
    }
    fn demux(&self, _m: Message, _c: Arc<dyn Session>, _ctl: Control, _machine: Arc<Machine>) -> Result<(), DemuxError> {
        Ok(())
    }
}

fn with_actor(m: Machine, n: usize, machine: usize, behaviour: Behaviour, wire: &Arc<Wire>, stamps: &Arc<Mutex<Stamps>>) -> Machine {
    macro_rules! mk {
        ($k:literal) => {
            m.with(Actor::<$k> { machine, behaviour, wire: wire.clone(), stamps: stamps.clone() })
        };
    }
    match n {
        0 => mk!(0),
        1 => mk!(1),
        _ => mk!(2),
    }
}

#[derive(Debug, Clone, PartialEq)]
enum Role {
    Sender { arp: bool },
    Receiver { capture_too: bool },
    PingPongIdle,
    ForwardIdle { arp: bool },
    DnsServerIdle,
    TcpOnly,
    Bare,
}

pub struct BarrierAndStatus {
    /// multi-thread runtime in real time instead of the current-thread runtime under virtual time
    pub mt: bool,
}

impl Check for BarrierAndStatus {
    fn id(&self) -> &'static str {
        if self.mt {
            "C13.multithread"
        } else {
            "C13"
        }
    }
    fn rule(&self) -> String {
        if self.mt {
            return "the machine sets of part C13 with times scaled to real time (slow initialisers 0..60 ms, shutdown requests 1..180 ms after the barrier, timeouts 1..800 ms, no Forward+ARP machines) on the tokio multi_thread runtime with 2/4/8 workers; oracle: (1) as in C13 by the logical clock (an atomic counter read by the harness protocols immediately before they wait on the barrier and by the frame hook / recorder on every frame and demux): no frame or demux before the last harness protocol reached the barrier, none at all if one never does, and none before the slowest initialiser's sleep has elapsed; (2) the returned status was requested by somebody (or TimedOut with a timeout, Exited without any request and without anybody keeping a shutdown handle) - which of several wins is left to the virtual-time part, the operating system's scheduling decides it here; (3) with a timeout the call returns within timeout + 1 s + 4 s of scheduling slack; a run that must end returns at all. non-trivial: as in C13. distinct: hash of decoded configuration".into();
        }
        "generated: 0..6 machines on one network, each with a role built from the repository's own protocols and applications (sender = Pci+Ipv4+Udp(+Arp)+SendMessage transmitting right after the barrier; receiver = recording application (+Capture that never completes); idle PingPong pair member, Forward(+Arp), DnsServer+SocketAPI, Tcp only, bare) plus 0..3 harness applications per machine: SlowInit(d) sleeping d before the barrier, Shutter(t, status) requesting a shutdown t after the barrier, NeverReturns, NeverReachesBarrier (at most one per case); timeout none or 1 ms..1 h, shutdown times distinct from the timeout, pairwise distinct or (1/4 of the cases) several in the same instant, in 1/10 of the cases 18 requests in one instant, with pairwise different statuses or (1/5 each) the plain shut_down(); oracle: (1) no frame is on any network and no application receives anything before every harness application has reached the barrier (logical clock shared by stamps and the frame hook) nor before the longest SlowInit has elapsed, and nothing at all if somebody never reaches it; (2) the returned status is that of the earliest shutdown request made before the timeout (within one instant: the request issued first, by logical stamps taken immediately before each request), else TimedOut (with a timeout) or Exited (without; only generated with machines that keep no shutdown handle or with a shutter); (3) with a timeout the call returns no later than timeout + 1 s of virtual time, and exactly at the winning shutter's time when there is one. non-trivial: >= 2 machines with a slow initialiser and a sender that transmits right after the barrier, or >= 2 competing shutdowns, or a machine that never finishes / never reaches the barrier. distinct: hash of decoded configuration".into()
    }
    fn assumptions(&self) -> Vec<String> {
        if self.mt {
            return vec!["the multi-thread schedule is sampled, not owned: each case is one schedule chosen by the operating system; no order between competing requests and the timeout is demanded, and the return bound has 4 s of slack, so that scheduling jitter under load cannot raise an alarm".into()];
        }
        vec![
            "part C13 runs on the current-thread runtime under virtual time; part C13.multithread samples the multi-thread runtime".into(),
            "Forward together with ARP on one machine is generated in 1 of 16 cases only: open known finding prebarrier_arp_from_forward".into(),
        ]
    }
    fn max_entropy(&self) -> usize {
        200
    }
    fn run(&self, e: &mut Entropy, ctx: &mut Ctx) -> Result<(), Failure> {
        // crowd: many shutdown requests with different statuses in the same instant (more than the shutdown channel holds)
        let mt = self.mt;
        let legacy = ctx.legacy_layout;
        let workers = if legacy { 2 } else { *e.pick(&[2usize, 4, 8]) };
        let wide = !legacy && e.chance(1, 3);
        let crowd = !legacy && e.chance(1, 10);
        let same_instant = crowd || (!legacy && e.chance(1, 4));
        let nm = if crowd { 6 } else { e.weighted(&[1, 2, 3, 3, 2, 2, 1]) };
        let lift_forward_arp = e.chance(1, 16) && !mt;
        // ARP is used by all senders and receivers of a case or by none (a sender with ARP needs a receiver that answers)
        let arp_case = e.chance(1, 3);
        let mut roles = vec![];
        for _ in 0..nm {
            let r = match e.weighted(&[4, 3, 1, 2, 1, 1, 1]) {
                0 => Role::Sender { arp: arp_case },
                1 => Role::Receiver { capture_too: e.chance(1, 3) },
                2 => Role::PingPongIdle,
                3 => Role::ForwardIdle { arp: lift_forward_arp && e.bool() },
                4 => Role::DnsServerIdle,
                5 => Role::TcpOnly,
                _ => Role::Bare,
            };
            roles.push(r);
        }
        // harness behaviours; times in ms, made pairwise distinct below
        let mut behaviours: Vec<Vec<Behaviour>> = vec![];
        let mut never_reaches = false;
        let mut used_times: Vec<u64> = vec![];
        let mut fresh_time = |e: &mut Entropy, max: u64| -> u64 {
            let mut t = 1 + e.choose(max as usize) as u64 * 3;
            while used_times.contains(&t) {
                t += 1;
            }
            used_times.push(t);
            t
        };
        let crowd_t = if legacy { 1 } else { 1 + e.choose(if mt { 100 } else { 500 }) as u64 };
        let mut serial = 0u32;
        for _ in 0..nm {
            let k = if crowd { 3 } else { e.weighted(&[3, 4, 2, 1]) };
            let mut v = vec![];
            for _ in 0..k {
                let b = match if crowd { 1 } else { e.weighted(&[5, 5, 1, 1]) } {
                    0 => Behaviour::SlowInit(if mt { *e.pick(&[0u64, 1, 5, 20, 60, 60]) } else { *e.pick(&[0u64, 1, 5, 50, 700, 5000]) }),
                    1 => {
                        // statuses are pairwise distinct so that the winner can be told apart
                        serial += 1;
                        let t = if crowd || (same_instant && e.chance(2, 3)) { crowd_t } else { fresh_time(e, if mt { 60 } else { 1000 }) * if mt && wide { 5 } else { 1 } };
                        Behaviour::Shutter(t, if (crowd && (legacy || !e.chance(1, 5))) || (!crowd && e.bool()) { Some(serial * 1000 + e.choose(200) as u32) } else { None })
                    }
                    2 => Behaviour::NeverReturns,
                    _ => {
                        if never_reaches {
                            Behaviour::NeverReturns
                        } else {
                            never_reaches = true;
                            Behaviour::NeverReachesBarrier
                        }
                    }
                };
                v.push(b);
            }
            behaviours.push(v);
        }
        let slow_max: u64 = behaviours.iter().flatten().filter_map(|b| if let Behaviour::SlowInit(d) = b { Some(*d) } else { None }).max().unwrap_or(0);
        let shutters: Vec<(u64, Option<u32>)> = behaviours.iter().flatten().filter_map(|b| if let Behaviour::Shutter(t, s) = b { Some((*t, *s)) } else { None }).collect();
        let keeps_handle = roles.iter().any(|r| matches!(r, Role::Receiver { capture_too: true } | Role::PingPongIdle | Role::DnsServerIdle)) || behaviours.iter().flatten().any(|b| matches!(b, Behaviour::NeverReturns | Behaviour::NeverReachesBarrier));
        let can_run_untimed = !never_reaches && (!shutters.is_empty() || !keeps_handle);
        let timeout_ms: Option<u64> = if can_run_untimed && e.chance(1, 3) {
            None
        } else {
            let mut t = match e.weighted(&[2, 3, 2, 1]) {
                0 => 1 + e.choose(20) as u64,
                1 if mt => 20 + e.choose(280) as u64,
                _ if mt => 400 + e.choose(if wide { 1200 } else { 400 }) as u64,
                1 => 20 + e.choose(3000) as u64,
                2 => 3000 + e.choose(60_000) as u64,
                _ => 3_600_000,
            };
            // distinct from every shutdown instant (barrier release + t)
            while shutters.iter().any(|s| slow_max + s.0 == t) {
                t += 1;
            }
            Some(t)
        };

        // ---- build
        let wire = Wire::new();
        let log: DemuxLog = Default::default();
        let stamps: Arc<Mutex<Stamps>> = Default::default();
        let bind_results = Arc::new(Mutex::new(vec![]));
        let net = NetworkBuilder::new().build();
        net.verif_set_hook(Some(wire.clone()));
        let addr = |m: usize| Ipv4Address::new([10, 0, 0, 1 + m as u8]);
        let receivers: Vec<usize> = (0..nm).filter(|m| matches!(roles[*m], Role::Receiver { .. })).collect();
        let mut machines = vec![];
        let mut senders = 0;
        for m in 0..nm {
            let table: IpTable<Recipient> = [(addr(m), Recipient::new(0, None))].into_iter().collect();
            let base = || Machine::new().with(Pci::new([net.clone()])).with(Ipv4::new(table.clone())).with(Udp::new());
            let mut mach = match &roles[m] {
                Role::Sender { arp } => {
                    senders += 1;
                    let to = receivers.first().map(|r| addr(*r)).unwrap_or(Ipv4Address::new([10, 0, 0, 99]));
                    let mut x = base().with(SendMessage::new(vec![Message::new(format!("hello from {m}"))], Endpoint::new(to, 7000)).local_ip(addr(m)));
                    if *arp && !receivers.is_empty() {
                        x = x.with(Arp::new());
                    }
                    x
                }
                Role::Receiver { capture_too } => {
                    let mut x = with_recorder(base(), 0, m, &wire, &log, vec![Endpoint::new(addr(m), 7000)], &bind_results);
                    if *capture_too {
                        x = x.with(Capture::new(Endpoint::new(addr(m), 7001), 1_000_000));
                    }
                    if arp_case {
                        x = x.with(Arp::new());
                    }
                    x
                }
                Role::PingPongIdle => base().with(PingPong::new(false, Endpoints::new(Endpoint::new(addr(m), 7100), Endpoint::new(Ipv4Address::new([10, 0, 0, 98]), 7100)))),
                Role::ForwardIdle { arp } => {
                    let mut x = base().with(Forward::new(Endpoints::new(Endpoint::new(addr(m), 7200), Endpoint::new(Ipv4Address::new([10, 0, 0, 97]), 7200))));
                    if *arp {
                        x = x.with(Arp::new());
                    }
                    x
                }
                Role::DnsServerIdle => base().with(SocketAPI::new(Some(addr(m)))).with(DnsServer::new(4)),
                Role::TcpOnly => base().with(Tcp::new()),
                Role::Bare => Machine::new(),
            };
            for (i, b) in behaviours[m].iter().enumerate() {
                mach = with_actor(mach, i, m, b.clone(), &wire, &stamps);
            }
            machines.push(mach.arc());
        }
        let _release = ReleaseOnDrop(machines.clone());
        let body = async {
            wire.mark_start();
            let t0 = tokio::time::Instant::now();
            let status = match timeout_ms {
                Some(t) if mt => match tokio::time::timeout(Duration::from_millis(t + 6000), run_internet_with_timeout(&machines, Duration::from_millis(t))).await {
                    Ok(s) => s,
                    Err(_) => ExitStatus::Status(u32::MAX),
                },
                Some(t) => run_internet_with_timeout(&machines, Duration::from_millis(t)).await,
                None => {
                    // safety net only: an untimed run that should return but does not
                    match tokio::time::timeout(Duration::from_secs(if mt { 10 } else { 7200 }), run_internet(&machines, None)).await {
                        Ok(s) => s,
                        Err(_) => ExitStatus::Status(u32::MAX),
                    }
                }
            };
            (status, t0.elapsed())
        };
        let (out, panics) = if mt {
            let _permit = mt_permit();
            let (rt, name) = mt_runtime(workers);
            let out = std::panic::catch_unwind(std::panic::AssertUnwindSafe(|| rt.block_on(body))).ok();
            // panics up to the return of the run; tearing the runtime down afterwards cancels tasks in arbitrary
            // order (Machine::start then sees JoinError::Cancelled), which is not part of the run
            let mut panics = take_mt_panics(&name);
            panics.extend(take_local_panics());
            rt.shutdown_timeout(Duration::from_millis(200));
            let _ = take_mt_panics(&name);
            (out, panics)
        } else {
            run_virtual(body)
        };
        let (status, elapsed) = out.unwrap_or((ExitStatus::Status(u32::MAX - 1), Duration::ZERO));
        let frames = wire.snapshot();
        let demux = log.lock().unwrap().clone();
        let st = stamps.lock().unwrap();
        if ctx.want_desc {
            ctx.desc = Some(json!({
                "roles": roles.iter().map(|r| format!("{r:?}")).collect::<Vec<_>>(),
                "behaviours": behaviours.iter().map(|b| format!("{b:?}")).collect::<Vec<_>>(),
                "timeout_ms": timeout_ms, "status": format!("{status:?}"), "elapsed": format!("{elapsed:?}"),
                "frames": frames.iter().map(|f| format!("#{} t={:?} {:?} {}->{:?}", f.order, f.t, f.proto, f.sender, f.dest)).collect::<Vec<_>>(),
                "reached": st.reached.iter().map(|s| format!("m{} #{} t={:?}", s.0, s.1, s.2)).collect::<Vec<_>>(),
            }));
        }
        let forward_arp = roles.iter().any(|r| matches!(r, Role::ForwardIdle { arp: true }));
        if !panics.is_empty() {
            let mut f = panic_failure(&panics);
            f.oracle = "no_panic_in_simulation".into();
            if forward_arp {
                f = Failure::new("barrier", "prebarrier_arp_from_forward", format!("Forward opens its session before the barrier; with ARP on the machine this transmits (and here panicked): {}", f.message));
            }
            return Err(f);
        }
        // (1) barrier
        let n_harness: usize = behaviours.iter().map(|b| b.len()).sum();
        let reach_all = !never_reaches;
        let first_frame = frames.iter().map(|f| f.order).min();
        let first_demux = demux.iter().map(|d| d.order).min();
        let first_event = [first_frame, first_demux].into_iter().flatten().min();
        let tag = if forward_arp { "prebarrier_arp_from_forward" } else { "frame_before_barrier" };
        if !reach_all {
            ensure!(first_event.is_none(), "barrier", tag, "a protocol never reaches the barrier but {} frame(s) / {} demux call(s) happened", frames.len(), demux.len());
        } else if let Some(fe) = first_event {
            ensure!(st.reached.len() == n_harness, "barrier", tag, "traffic happened although only {} of {} harness protocols reached the barrier", st.reached.len(), n_harness);
            let last_reach = st.reached.iter().map(|s| s.1).max().unwrap_or(0);
            ensure!(fe > last_reach, "barrier", tag, "the first frame / demux (logical time {fe}) precedes the moment the last harness protocol reached the barrier ({last_reach})");
            let t_first = frames.iter().map(|f| f.t).chain(demux.iter().map(|d| d.t)).min().unwrap();
            ensure!(t_first >= Duration::from_millis(slow_max), "barrier", tag, "the first frame appeared at {:?}, before the slowest initialiser ({} ms) was done", t_first, slow_max);
        }
        if forward_arp {
            // the barrier is held up by Forward's pre-barrier ARP resolution (open known finding); the timing
            // model below assumes the barrier is released when the slowest initialiser is done
            return Ok(());
        }
        if mt {
            ensure!(status != ExitStatus::Status(u32::MAX), "return_time", "never_returned", "the run did not return within {} (timeout {:?}, {} shutdown requests made)", if timeout_ms.is_some() { "timeout + 6 s" } else { "10 s" }, timeout_ms, st.requests.len());
            // Which of several requests (or the timeout) wins is decided by the operating system's scheduling here: under
            // load the timeout task or a requesting thread can be delayed by hundreds of milliseconds, so no order is
            // demanded (the virtual-time part decides that); the status must be one that somebody asked for.
            let to = timeout_ms.map(Duration::from_millis);
            match &status {
                ExitStatus::TimedOut => ensure!(to.is_some(), "exit_status", "wrong_status", "TimedOut returned by a run without a timeout ({} workers)", workers),
                other => {
                    let mine: Option<u32> = match other {
                        ExitStatus::Status(n) => Some(*n),
                        _ => None,
                    };
                    let requested = st.requests.iter().any(|r| r.1 == mine);
                    ensure!(requested || (*other == ExitStatus::Exited && st.requests.is_empty() && !keeps_handle), "exit_status", "wrong_status", "returned {:?} which nobody requested (requests {:?}, {} workers)", other, st.requests, workers);
                }
            }
            if let Some(to) = to {
                ensure!(elapsed <= to + Duration::from_secs(5), "return_time", "later_than_timeout_plus_1s", "returned after {:?} with a timeout of {:?} ({} workers; 4 s of scheduling slack)", elapsed, to, workers);
            }
            let slow_machines = behaviours.iter().filter(|b| b.iter().any(|x| matches!(x, Behaviour::SlowInit(d) if *d > 0))).count();
            ctx.nontrivial = (slow_machines >= 2 && senders >= 1 && !frames.is_empty()) || shutters.len() >= 2 || never_reaches || behaviours.iter().flatten().any(|b| *b == Behaviour::NeverReturns);
            if shutters.len() >= 2 {
                ctx.class("competing_shutdowns");
            }
            if never_reaches {
                ctx.class("never_reaches_barrier");
            }
            if !frames.is_empty() {
                ctx.class("traffic_after_barrier");
            }
            if status == ExitStatus::TimedOut {
                ctx.class("timed_out");
            }
            ctx.class(["", "", "workers_2", "", "workers_4", "", "", "", "workers_8"][workers]);
            return Ok(());
        }
        // (2) status, (3) return time
        let release = Duration::from_millis(slow_max);
        // the first request: the earliest instant; within one instant the order of the requests themselves (stamps
        // taken right before each request on the single-threaded runtime)
        let tmin = shutters.iter().map(|s| s.0).min();
        let first_shutter: Option<(u64, Option<u32>)> = tmin.map(|t| {
            let tied: Vec<Option<u32>> = shutters.iter().filter(|s| s.0 == t).map(|s| s.1).collect();
            let by_stamp = st.requests.iter().filter(|r| tied.contains(&r.1)).min_by_key(|r| r.0).map(|r| r.1);
            (t, by_stamp.unwrap_or(tied[0]))
        });
        let expected: (ExitStatus, Option<Duration>) = if never_reaches {
            (ExitStatus::TimedOut, timeout_ms.map(Duration::from_millis))
        } else {
            match (first_shutter, timeout_ms) {
                (Some((t, s)), Some(to)) if slow_max + t < to => (s.map(ExitStatus::Status).unwrap_or(ExitStatus::Exited), Some(release + Duration::from_millis(t))),
                (_, Some(to)) => (ExitStatus::TimedOut, Some(Duration::from_millis(to))),
                (Some((t, s)), None) => (s.map(ExitStatus::Status).unwrap_or(ExitStatus::Exited), Some(release + Duration::from_millis(t))),
                (None, None) => (ExitStatus::Exited, None),
            }
        };
        let tied_first = tmin.map(|t| shutters.iter().filter(|s| s.0 == t).count()).unwrap_or(0);
        ensure!(status == expected.0, "exit_status", if tied_first > 16 { "wrong_status_with_more_than_16_simultaneous_requests" } else { "wrong_status" }, "returned {:?}, expected {:?} ({} requests in the first instant; shutters {:?}, barrier release at {} ms, timeout {:?})", status, expected.0, tied_first, shutters, slow_max, timeout_ms);
        if let Some(to) = timeout_ms {
            ensure!(elapsed <= Duration::from_millis(to) + Duration::from_secs(1), "return_time", "later_than_timeout_plus_1s", "returned after {:?} with a timeout of {} ms", elapsed, to);
        }
        if let Some(t) = expected.1 {
            ensure!(elapsed == t, "return_time", "not_at_request_time", "returned after {:?}, the winning request was made at {:?}", elapsed, t);
        } else {
            ensure!(elapsed <= release + Duration::from_secs(5), "return_time", "untimed_run_lingers", "untimed run without handles returned after {:?}", elapsed);
        }
        let slow_machines = behaviours.iter().filter(|b| b.iter().any(|x| matches!(x, Behaviour::SlowInit(d) if *d > 0))).count();
        ctx.nontrivial = (slow_machines >= 2 && senders >= 1 && !frames.is_empty()) || shutters.len() >= 2 || never_reaches || behaviours.iter().flatten().any(|b| *b == Behaviour::NeverReturns);
        if shutters.len() >= 2 {
            ctx.class("competing_shutdowns");
        }
        if tied_first >= 2 && status != ExitStatus::TimedOut {
            ctx.class("first_request_tied_in_one_instant");
        }
        if tied_first > 16 && status != ExitStatus::TimedOut {
            ctx.class("more_than_16_requests_in_one_instant");
        }
        if never_reaches {
            ctx.class("never_reaches_barrier");
        }
        if timeout_ms.is_none() {
            ctx.class("untimed_run");
        }
        if !frames.is_empty() {
            ctx.class("traffic_after_barrier");
        }
        if status == ExitStatus::TimedOut {
            ctx.class("timed_out");
        }
        Ok(())
    }
}
