//! C20: name resolution returns the registered address and caches it.

use crate::engine::*;
use crate::ensure;
use crate::sim::*;
use async_trait::async_trait;
use elvis_core::ip_table::IpTable;
use elvis_core::machine::Machine;
use elvis_core::message::Message;
use elvis_core::network::NetworkBuilder;
use elvis_core::protocol::{DemuxError, StartError};
use elvis_core::protocols::dns::dns_parsing::DnsMessage;
use elvis_core::protocols::ipv4::{Ipv4Address, Recipient};
use elvis_core::protocols::pci::Pci;
use elvis_core::protocols::{Arp, DnsClient, DnsServer, Ipv4, SocketAPI, Tcp, Udp};
use elvis_core::{run_internet_with_timeout, Control, Protocol, Session, Shutdown};
use serde_json::json;
use std::sync::atomic::{AtomicUsize, Ordering};
use std::sync::{Arc, Mutex};
use std::time::Duration;
use tokio::sync::Barrier;

#[derive(Debug, Clone)]
struct Lookup {
    id: usize,
    name: String,
    at_ms: u64,
    /// wait for the previous lookup of this client to finish first
    sequential: bool,
}

#[derive(Debug, Clone)]
struct LookupResult {
    id: usize,
    client: usize,
    result: Result<[u8; 4], String>,
    start_order: u64,
    end_order: u64,
    cache_hit_expected: bool,
}

struct Resolver {
    client: usize,
    lookups: Vec<Lookup>,
    results: Arc<Mutex<Vec<LookupResult>>>,
    wire: Arc<Wire>,
    remaining: Arc<AtomicUsize>,
}

#[async_trait]
impl Protocol for Resolver {
    async fn start(&self, shutdown: Shutdown, initialized: Arc<Barrier>, machine: Arc<Machine>) -> Result<(), StartError> {
        initialized.wait().await;
        self.wire.mark_start();
        let t0 = tokio::time::Instant::now();
        let (client, lookups, results, wire, remaining) = (self.client, self.lookups.clone(), self.results.clone(), self.wire.clone(), self.remaining.clone());
        tokio::spawn(async move {
            let mut handles = vec![];
            let mut done_names: Vec<String> = vec![];
            for l in lookups {
                let machine = machine.clone();
                let results = results.clone();
                let wire = wire.clone();
                let remaining = remaining.clone();
                let shutdown = shutdown.clone();
                if l.sequential {
                    for h in handles.drain(..) {
                        let _: Result<Option<String>, _> = h.await;
                    }
                }
                let known = done_names.contains(&l.name) && l.sequential;
                done_names.push(l.name.clone());
                let h = tokio::spawn(async move {
                    tokio::time::sleep_until(t0 + Duration::from_millis(l.at_ms)).await;
                    let dns = machine.protocol::<DnsClient>().unwrap();
                    let start_order = wire.tick();
                    let r = dns.get_host_by_name(l.name.clone(), machine.clone()).await;
                    let end_order = wire.tick();
                    results.lock().unwrap().push(LookupResult { id: l.id, client, result: r.map(|a| a.to_bytes()).map_err(|e| format!("{e:?}")), start_order, end_order, cache_hit_expected: known });
                    if remaining.fetch_sub(1, Ordering::SeqCst) == 1 {
                        shutdown.shut_down();
                    }
                    Some(l.name)
                });
                handles.push(h);
            }
        });
        Ok(())
    }
    fn demux(&self, _m: Message, _c: Arc<dyn Session>, _ctl: Control, _machine: Arc<Machine>) -> Result<(), DemuxError> {
        Ok(())
    }
}

pub struct DnsResolution;

fn gen_name(e: &mut Entropy, used: &[String]) -> String {
    for attempt in 0..6 {
        // names related to one that exists: other letter case, a prefix, an extension
        if !used.is_empty() && e.chance(1, 3) {
            let base = &used[e.choose(used.len())];
            let s: String = match e.choose(4) {
                0 => base.chars().map(|c| if c.is_ascii_lowercase() { c.to_ascii_uppercase() } else { c.to_ascii_lowercase() }).collect(),
                1 => {
                    let k = e.choose(base.chars().count().max(1));
                    base.chars().enumerate().map(|(i, c)| if i == k { if c.is_ascii_lowercase() { c.to_ascii_uppercase() } else { c.to_ascii_lowercase() } } else { c }).collect()
                }
                2 => base.chars().take(base.chars().count().saturating_sub(1).max(1)).collect(),
                _ => format!("{base}{}", *e.pick(&['a', '.', '0', 'Z'])),
            };
            if !s.is_empty() && !used.contains(&s) && s != "testserver.com" && s != "google.com" {
                return s;
            }
        }
        let n = match e.weighted(&[8, 6, 4, 1, 1]) {
            0 => 1 + e.choose(12),
            1 => 13 + e.choose(20),
            2 => 30 + e.choose(31),
            3 => 60 + e.choose(200),
            _ => 230 + e.choose(500),
        };
        let drawn = n.min(40);
        let s: String = (0..drawn)
            .map(|_| match e.weighted(&[8, 2, 1, 1]) {
                0 => (b'a' + e.choose(26) as u8) as char,
                1 => *e.pick(&['.', '-', '_', '0', '9', 'Z']),
                2 => (33 + e.choose(94) as u8) as char,
                _ => *e.pick(&['é', 'ü', '世', 'λ']),
            })
            .collect();
        // long names: the drawn characters repeated up to the length
        let s: String = if n > drawn { s.chars().cycle().take(n).collect() } else { s };
        if !used.contains(&s) && s != "testserver.com" && s != "google.com" {
            return s;
        }
        if attempt == 5 {
            return format!("{s}-{}", used.len());
        }
    }
    format!("name-{}", used.len())
}

fn gen_name_legacy(e: &mut Entropy, used: &[String]) -> String {
    for attempt in 0..6 {
        let n = match e.weighted(&[4, 3, 2]) {
            0 => 1 + e.choose(12),
            1 => 13 + e.choose(20),
            _ => 30 + e.choose(31),
        };
        let s: String = (0..n)
            .map(|_| match e.weighted(&[8, 2, 1, 1]) {
                0 => (b'a' + e.choose(26) as u8) as char,
                1 => *e.pick(&['.', '-', '_', '0', '9', 'Z']),
                2 => (33 + e.choose(94) as u8) as char,
                _ => *e.pick(&['é', 'ü', '世', 'λ']),
            })
            .collect();
        if !used.contains(&s) && s != "testserver.com" && s != "google.com" {
            return s;
        }
        if attempt == 5 {
            return format!("{s}-{}", used.len());
        }
    }
    format!("name-{}", used.len())
}

impl Check for DnsResolution {
    fn id(&self) -> &'static str {
        "C20"
    }
    fn rule(&self) -> String {
        "generated: an authoritative server (SocketAPI + DnsServer) with 1..6 extra records (names of 1..60, sometimes up to 730 printable characters without the delimiter, incl. multi-byte UTF-8, a third of them derived from another registered name by changing letter case, dropping the last or appending a character; arbitrary addresses) and 1..6 clients (SocketAPI + DnsClient + harness application) each running 1..5 lookups that are sequential, concurrent or repeated, started at 0..50 ms; random per-frame delays reorder queries and replies (no loss: DNS here has no retry); oracle: every lookup returns exactly the registered address; every DNS response frame delivered to a client echoes the identifier and the name of a query that client sent from the port the response is addressed to; a lookup issued after a successful lookup of the same name on the same client returns the same address while no frame leaves that machine between its start and its end. non-trivial: >= 2 clients or >= 2 names with at least one delayed frame, or a cache hit. distinct: hash of decoded configuration".into()
    }
    fn assumptions(&self) -> Vec<String> {
        vec!["the server is configured to serve at least as many connections as there are uncached lookups (DnsServer::new(n) stops after n)".into()]
    }
    fn max_entropy(&self) -> usize {
        700
    }
    fn run(&self, e: &mut Entropy, ctx: &mut Ctx) -> Result<(), Failure> {
        // files written before the generator was extended decode as they did then
        let (names, records, lookups, total, nrec, nclients, delays) = if ctx.legacy_layout {
        let nrec = 1 + e.choose(6);
        let mut names: Vec<String> = vec![];
        let mut records: Vec<(String, [u8; 4])> = vec![("testserver.com".into(), [123, 45, 67, 15]), ("google.com".into(), [123, 45, 67, 60])];
        for _ in 0..nrec {
            let n = gen_name_legacy(e, &names);
            names.push(n.clone());
            records.push((n, e.u32().to_be_bytes()));
        }
        let nclients = 1 + e.choose(6);
        let mut lookups: Vec<Vec<Lookup>> = vec![];
        let mut id = 0;
        for _ in 0..nclients {
            let k = 1 + e.choose(5);
            let mut v: Vec<Lookup> = vec![];
            for j in 0..k {
                let name = if j > 0 && e.chance(2, 5) { v[e.choose(j)].name.clone() } else { records[e.choose(records.len())].0.clone() };
                v.push(Lookup { id, name, at_ms: e.choose(50) as u64, sequential: j > 0 && e.bool() });
                id += 1;
            }
            lookups.push(v);
        }
        let total = id;
        let delays: Vec<u64> = (0..12).map(|_| *e.pick(&[0u64, 0, 1, 4, 11, 30])).collect();

            (names, records, lookups, total, nrec, nclients, delays)
        } else {
        // plan first (record count, who looks up which record when, delays), names last: long names eat entropy
        let nrec = 1 + e.choose(6);
        let nclients = 1 + e.choose(6);
        let mut plan: Vec<Vec<(Option<usize>, usize, u64, bool)>> = vec![]; // (repeat of earlier lookup j, record index, at, sequential)
        for _ in 0..nclients {
            let k = 1 + e.choose(5);
            let mut v = vec![];
            for j in 0..k {
                let rep = if j > 0 && e.chance(2, 5) { Some(e.choose(j)) } else { None };
                v.push((rep, e.choose(nrec + 2), e.choose(50) as u64, j > 0 && e.bool()));
            }
            plan.push(v);
        }
        let delays: Vec<u64> = (0..12).map(|_| *e.pick(&[0u64, 0, 1, 4, 11, 30])).collect();
        let mut names: Vec<String> = vec![];
        let mut records: Vec<(String, [u8; 4])> = vec![("testserver.com".into(), [123, 45, 67, 15]), ("google.com".into(), [123, 45, 67, 60])];
        for _ in 0..nrec {
            let a = e.u32().to_be_bytes();
            let n = gen_name(e, &names);
            names.push(n.clone());
            records.push((n, a));
        }
        let mut lookups: Vec<Vec<Lookup>> = vec![];
        let mut id = 0;
        for pl in &plan {
            let mut v: Vec<Lookup> = vec![];
            for (rep, rec, at, seq) in pl {
                let name = match rep {
                    Some(j) => v[*j].name.clone(),
                    None => records[*rec].0.clone(),
                };
                v.push(Lookup { id, name, at_ms: *at, sequential: *seq });
                id += 1;
            }
            lookups.push(v);
        }
        let total = id;

            (names, records, lookups, total, nrec, nclients, delays)
        };
        let wire = Wire::new();
        let dl = delays.clone();
        wire.set_planner(Box::new(move |f, earlier| if f.proto == Proto::Ipv4 { Decision { drop: false, delay_ms: dl[earlier.len() % dl.len()], copies: vec![] } } else { Decision::default() }));
        let net = NetworkBuilder::new().build();
        net.verif_set_hook(Some(wire.clone()));
        let table: IpTable<Recipient> = [("0.0.0.0/0", Recipient::new(0, None))].into_iter().collect();
        let base = |ip: Ipv4Address| Machine::new().with(Pci::new([net.clone()])).with(Ipv4::new(table.clone())).with(Udp::new()).with(Tcp::new()).with(Arp::new()).with(SocketAPI::new(Some(ip)));
        let server = DnsServer::new((total + 1) as u16);
        for (n, a) in &records[2..] {
            server.add_mapping(n.clone(), Ipv4Address::new(*a));
        }
        let results: Arc<Mutex<Vec<LookupResult>>> = Default::default();
        let remaining = Arc::new(AtomicUsize::new(total));
        let mut machines = vec![base(Ipv4Address::DNS_AUTH).with(server).arc()];
        let mut client_macs = vec![];
        for (c, ls) in lookups.iter().enumerate() {
            let ip = Ipv4Address::new([10, 9, 0, 10 + c as u8]);
            let m = base(ip).with(DnsClient::new()).with(Resolver { client: c, lookups: ls.clone(), results: results.clone(), wire: wire.clone(), remaining: remaining.clone() });
            let m = m.arc();
            client_macs.push(m.protocol::<Pci>().unwrap().mac_addresses().next().unwrap());
            machines.push(m);
        }
        let _release = ReleaseOnDrop(machines.clone());
        let (st, panics): (Option<_>, _) = run_virtual(async { run_internet_with_timeout(&machines, Duration::from_secs(30)).await });
        let frames = wire.snapshot();
        let res = results.lock().unwrap().clone();
        if ctx.want_desc {
            ctx.desc = Some(json!({
                "records": records.iter().map(|(n, a)| format!("{n:?} -> {a:?}")).collect::<Vec<_>>(),
                "lookups": lookups.iter().enumerate().map(|(c, v)| format!("client {c}: {:?}", v.iter().map(|l| format!("{:?}@{}ms{}", l.name, l.at_ms, if l.sequential { " seq" } else { "" })).collect::<Vec<_>>())).collect::<Vec<_>>(),
                "status": format!("{st:?}"), "results": res.iter().map(|r| format!("lookup {} client {}: {:?}", r.id, r.client, r.result)).collect::<Vec<_>>(), "frames": frames.len(),
            }));
        }
        if !panics.is_empty() {
            let mut f = panic_failure(&panics);
            f.oracle = "no_panic_in_simulation".into();
            return Err(f);
        }
        ensure!(res.len() == total, "lookup_returns", "incomplete", "{} of {} lookups returned (status {:?})", res.len(), total, st);
        let mut cache_hit = false;
        for (c, ls) in lookups.iter().enumerate() {
            for l in ls {
                let r = res.iter().find(|r| r.id == l.id).unwrap();
                let want = records.iter().find(|x| x.0 == l.name).unwrap().1;
                match &r.result {
                    Ok(a) => ensure!(*a == want, "registered_address", "wrong_address", "client {c}: lookup of {:?} returned {:?}, registered is {:?}", l.name, a, want),
                    Err(err) => ensure!(false, "registered_address", "lookup_failed", "client {c}: lookup of {:?} failed: {err}", l.name),
                }
                if r.cache_hit_expected {
                    let sent = frames.iter().filter(|f| f.sender == client_macs[c] && f.order > r.start_order && f.order < r.end_order).count();
                    ensure!(sent == 0, "cache", "frame_on_cache_hit", "client {c}: repeated lookup of {:?} put {sent} frame(s) on the network", l.name);
                    cache_hit = true;
                }
            }
        }
        // responses echo id and name of a query of that client
        let mut queries: Vec<(u64, u16, u16, Vec<u8>)> = vec![]; // (client mac, src port, id, name)
        let mut delayed = false;
        for f in frames.iter().filter(|f| f.proto == Proto::Ipv4 && f.bytes.len() > 28 && f.bytes[9] == 17) {
            if f.extra_delay > Duration::ZERO {
                delayed = true;
            }
            let sport = u16::from_be_bytes([f.bytes[20], f.bytes[21]]);
            let dport = u16::from_be_bytes([f.bytes[22], f.bytes[23]]);
            let Ok(m) = DnsMessage::from_bytes(f.bytes[28..].iter().cloned()) else { continue };
            if dport == 53 {
                queries.push((f.sender, sport, m.header.id, m.question.qname.clone()));
            } else if sport == 53 {
                for (tap, _) in &f.deliveries {
                    if let Some(ci) = client_macs.iter().position(|x| x == tap) {
                        let ok = queries.iter().any(|q| q.0 == client_macs[ci] && q.1 == dport && q.2 == m.header.id && q.3 == m.question.qname);
                        ensure!(ok, "response_echoes_query", "foreign_response", "client {ci} received a DNS response (id {}, name {:?}, to port {dport}) that echoes none of its queries", m.header.id, String::from_utf8_lossy(&m.question.qname));
                    }
                }
            }
        }
        ctx.nontrivial = ((nclients >= 2 || nrec >= 2) && delayed) || cache_hit;
        if cache_hit {
            ctx.class("cache_hit");
        }
        if delayed {
            ctx.class("delayed_frames");
        }
        if names.iter().any(|n| n.len() > 24) {
            ctx.class("name_longer_than_24_bytes");
        }
        if names.iter().any(|n| n.len() > 240) {
            ctx.class("name_longer_than_240_bytes");
        }
        let looked: Vec<&String> = lookups.iter().flatten().map(|l| &l.name).collect();
        if lookups.iter().any(|ls| ls.iter().any(|a| ls.iter().any(|b| a.name != b.name && a.name.to_lowercase() == b.name.to_lowercase()))) {
            ctx.class("one_client_resolves_two_names_differing_in_case");
        }
        if looked.iter().any(|a| looked.iter().any(|b| a != b && b.starts_with(a.as_str()))) {
            ctx.class("a_resolved_name_is_a_prefix_of_another");
        }
        Ok(())
    }
}
