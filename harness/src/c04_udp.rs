//! C04: datagrams reach exactly the listener bound to their address and port.

use crate::engine::*;
use crate::ensure;
use crate::sim::*;
use async_trait::async_trait;
use elvis_core::ip_table::IpTable;
use elvis_core::machine::Machine;
use elvis_core::message::Message;
use elvis_core::network::{Mac, NetworkBuilder};
use elvis_core::protocol::{DemuxError, StartError};
use elvis_core::protocols::ipv4::{Ipv4Address, Recipient};
use elvis_core::protocols::pci::Pci;
use elvis_core::protocols::{Arp, Endpoint, Endpoints, Ipv4, Udp};
use elvis_core::{run_internet_with_timeout, Control, Network, Protocol, Session, Shutdown};
use serde_json::json;
use std::collections::BTreeMap;
use std::sync::{Arc, Mutex};
use std::time::Duration;
use tokio::sync::Barrier;

#[derive(Debug, Clone)]
pub struct UdpSend {
    pub at_ms: u64,
    pub local: Endpoint,
    pub remote: Endpoint,
    pub payload: Vec<u8>,
    pub tag: u32,
}

#[derive(Debug, Clone)]
pub struct UdpSendResult {
    pub tag: u32,
    pub opened: bool,
    pub sent: Option<bool>,
}

/// Scripted UDP sender (one per machine)
pub struct UdpSender {
    pub sends: Vec<UdpSend>,
    pub results: Arc<Mutex<Vec<UdpSendResult>>>,
    pub wire: Arc<Wire>,
}

#[async_trait]
impl Protocol for UdpSender {
    async fn start(&self, _shutdown: Shutdown, initialized: Arc<Barrier>, machine: Arc<Machine>) -> Result<(), StartError> {
        initialized.wait().await;
        self.wire.mark_start();
        let t0 = tokio::time::Instant::now();
        let id = self.id();
        for s in self.sends.clone() {
            let machine = machine.clone();
            let results = self.results.clone();
            tokio::spawn(async move {
                tokio::time::sleep_until(t0 + Duration::from_millis(s.at_ms)).await;
                let udp = machine.protocol::<Udp>().unwrap();
                match udp.open_for_sending(id, Endpoints::new(s.local, s.remote), machine.clone()).await {
                    Ok(session) => {
                        let r = session.send(Message::new(s.payload.clone()), machine.clone());
                        results.lock().unwrap().push(UdpSendResult { tag: s.tag, opened: true, sent: Some(r.is_ok()) });
                    }
                    Err(_) => results.lock().unwrap().push(UdpSendResult { tag: s.tag, opened: false, sent: None }),
                }
            });
        }
        Ok(())
    }
    fn demux(&self, _m: Message, _c: Arc<dyn Session>, _ctl: Control, _machine: Arc<Machine>) -> Result<(), DemuxError> {
        Ok(())
    }
}

pub fn udp_payload(tag: u32, len: usize) -> Vec<u8> {
    let t = tag.to_be_bytes();
    (0..len).map(|i| if i < 4 { t[i] } else { (i as u8).wrapping_mul(7) ^ t[3] }).collect()
}

#[derive(Debug, Clone, Copy, PartialEq)]
enum MacPolicy {
    Unicast(usize), // to machine index (its tap on the network of the slot)
    UnknownMac,
    Broadcast, // Recipient mac None without ARP
    ArpResolve,
}

pub struct UdpDemux;

impl Check for UdpDemux {
    fn id(&self) -> &'static str {
        "C04"
    }
    fn rule(&self) -> String {
        "generated: 1..5 machines on 1..2 networks (MTU 100..1500, in 1/60 of the cases 65535), ARP on all machines or on none, each machine with 1..2 own addresses and 1..4 recording applications that bind sets of (address in {own addresses, 0.0.0.0, 255.255.255.255, occasionally a foreign address}, port from a pool of 3) incl. deliberate second binds of an already bound endpoint, and on a third of the machines 1..2 further binds made while the simulation runs (at x.5 ms; datagrams are sent and delivered at whole milliseconds); 1..8 datagrams, a third of them on the flow (same source and destination endpoints) of an earlier one at another time (sender machine and local address, whose route is a unicast MAC / an unknown MAC / link broadcast / ARP resolution, destination (A, P) from the bound and unbound endpoints, payload 0 / small / MTU-28 / MTU-27 bytes); oracle: reference delivery model - for every machine the frame reaches, the receiver is the application bound to (A,P) at the time of the delivery, else the one bound to (0.0.0.0,P), else nobody; the multiset of recorded demux calls (machine, application, payload, source address+port, destination address+port from the Control headers) equals the model's; a second bind of a bound endpoint is refused and the first binding keeps receiving; an oversize payload is refused at send and never recorded. non-trivial: the destination port has both an exact and a wildcard binding on a reached machine, or a reached machine has a binding that must not match (other port / other specific address). distinct: hash of decoded configuration".into()
    }
    fn assumptions(&self) -> Vec<String> {
        vec![
            "whether the sender's own machine hears its own link broadcast is not asserted (records on the sender machine are ignored for broadcast frames)".into(),
            "with ARP, a destination address is claimed by at most one machine; ARP frames are never dropped here (C06)".into(),
        ]
    }
    fn max_entropy(&self) -> usize {
        400
    }
    fn run(&self, e: &mut Entropy, ctx: &mut Ctx) -> Result<(), Failure> {
        let legacy = ctx.legacy_layout;
        let nnets = 1 + e.choose(2);
        // now and then a network with the largest possible MTU: datagrams that fill a 65535-byte IPv4 packet
        let mtus: Vec<u16> = (0..nnets).map(|_| if !legacy && e.chance(1, 60) { 65535 } else { 100 + e.choose(1401) as u16 }).collect();
        let nm = 1 + e.choose(5);
        let arp = e.chance(1, 3);
        let ports = [7u16, 9, 4000];
        // machine attachments (distinct networks), addresses
        let mut attach: Vec<Vec<usize>> = vec![];
        let mut addrs: Vec<Vec<Ipv4Address>> = vec![];
        for m in 0..nm {
            let a = if nnets == 2 && e.chance(1, 3) { vec![0, 1] } else { vec![e.choose(nnets)] };
            let k = 1 + e.choose(2);
            addrs.push((0..k).map(|j| Ipv4Address::new([10, 0, m as u8 + 1, j as u8 + 1])).collect());
            attach.push(a);
        }
        // bindings: binds[machine][app] = endpoints
        let mut binds: Vec<Vec<Vec<Endpoint>>> = vec![];
        let mut all_eps: Vec<Endpoint> = vec![];
        for m in 0..nm {
            let napps = 1 + e.choose(4);
            let mut apps = vec![];
            for _ in 0..napps {
                let nb = e.weighted(&[1, 4, 3, 1]);
                let mut eps = vec![];
                for _ in 0..nb {
                    let address = match e.weighted(&[5, 3, 1, 1]) {
                        0 => addrs[m][e.choose(addrs[m].len())],
                        1 => Ipv4Address::CURRENT_NETWORK,
                        2 => Ipv4Address::SUBNET,
                        _ => {
                            if arp {
                                addrs[m][0]
                            } else {
                                let o = e.choose(nm);
                                addrs[o][0]
                            }
                        }
                    };
                    let ep = Endpoint::new(address, ports[e.choose(3)]);
                    eps.push(ep);
                    all_eps.push(ep);
                }
                apps.push(eps);
            }
            binds.push(apps);
        }
        // binds made while datagrams are already flowing: (machine, app, time, endpoint); times are x.5 ms, sends and
        // deliveries happen at whole milliseconds, so the order of a bind and a delivery is never ambiguous
        let mut late: Vec<(usize, usize, Duration, Endpoint)> = vec![];
        if !legacy {
            for m in 0..nm {
                if e.chance(1, 3) {
                    for _ in 0..(1 + e.choose(2)) {
                        let app = e.choose(binds[m].len());
                        let address = match e.weighted(&[5, 3]) {
                            0 => addrs[m][e.choose(addrs[m].len())],
                            _ => Ipv4Address::CURRENT_NETWORK,
                        };
                        let ep = Endpoint::new(address, ports[e.choose(3)]);
                        all_eps.push(ep);
                        late.push((m, app, Duration::from_micros(500 + 1000 * e.choose(25) as u64), ep));
                    }
                }
            }
        }
        // model of bindings: first successful bind per (machine, endpoint) wins (apps start in unspecified
        // order, so a contested endpoint is resolved from the recorded bind results after the run)
        // sends
        let nsends = 1 + e.choose(8);
        struct S {
            m: usize,
            local_idx: usize,
            slot: usize,
            policy: MacPolicy,
            send: UdpSend,
        }
        let mut sends: Vec<S> = vec![];
        // each (machine, local address) has one route; decide routes lazily
        let mut routes: BTreeMap<(usize, usize), (usize, MacPolicy)> = BTreeMap::new();
        for tag in 0..nsends {
            // another datagram of an earlier flow (same source and destination endpoints) at another time
            if !legacy && tag > 0 && e.chance(1, 3) {
                let k = e.choose(sends.len());
                let (m, local_idx, slot, policy, local, remote, len) = (sends[k].m, sends[k].local_idx, sends[k].slot, sends[k].policy, sends[k].send.local, sends[k].send.remote, sends[k].send.payload.len().max(4));
                let tagv = 0xC400_0000 + tag as u32;
                sends.push(S { m, local_idx, slot, policy, send: UdpSend { at_ms: e.choose(30) as u64, local, remote, payload: udp_payload(tagv, len), tag: tagv } });
                continue;
            }
            let m = e.choose(nm);
            let local_idx = e.choose(addrs[m].len());
            let (slot, policy) = *routes.entry((m, local_idx)).or_insert_with(|| {
                let slot = e.choose(attach[m].len());
                let net = attach[m][slot];
                let peers: Vec<usize> = (0..nm).filter(|o| attach[*o].contains(&net)).collect();
                let policy = if arp {
                    if e.chance(2, 3) {
                        MacPolicy::ArpResolve
                    } else {
                        MacPolicy::Unicast(peers[e.choose(peers.len())])
                    }
                } else {
                    match e.weighted(&[5, 1, 3]) {
                        0 => MacPolicy::Unicast(peers[e.choose(peers.len())]),
                        1 => MacPolicy::UnknownMac,
                        _ => MacPolicy::Broadcast,
                    }
                };
                (slot, policy)
            });
            let net = attach[m][slot];
            let remote = if !all_eps.is_empty() && e.chance(4, 5) {
                let mut ep = all_eps[e.choose(all_eps.len())];
                if ep.address == Ipv4Address::CURRENT_NETWORK {
                    // a wildcard listener is addressed through some concrete address
                    let o = e.choose(nm);
                    ep.address = addrs[o][e.choose(addrs[o].len())];
                }
                if e.chance(1, 6) {
                    ep.port = ports[e.choose(3)];
                }
                ep
            } else {
                let o = e.choose(nm);
                Endpoint::new(addrs[o][e.choose(addrs[o].len())], ports[e.choose(3)])
            };
            let remote = if policy == MacPolicy::ArpResolve && remote.address == Ipv4Address::SUBNET { Endpoint::new(addrs[m][0], remote.port) } else { remote };
            let mtu = mtus[net] as usize;
            let len = match e.weighted(&[1, 4, 2, 2]) {
                0 => 0,
                1 => 4 + e.choose(60),
                2 => mtu - 28,
                _ => mtu - 27,
            };
            let tagv = 0xC400_0000 + tag as u32;
            sends.push(S { m, local_idx, slot, policy, send: UdpSend { at_ms: e.choose(if legacy { 20 } else { 30 }) as u64, local: Endpoint::new(addrs[m][local_idx], 5000 + tag as u16), remote, payload: udp_payload(tagv, len), tag: tagv } });
        }

        // ---- build
        let wire = Wire::new();
        let log: DemuxLog = Default::default();
        let bind_results = Arc::new(Mutex::new(vec![]));
        let late_results: LateBindLog = Default::default();
        let send_results: Arc<Mutex<Vec<UdpSendResult>>> = Default::default();
        let nets: Vec<Arc<Network>> = mtus
            .iter()
            .map(|m| {
                let n = NetworkBuilder::new().mtu(*m).build();
                n.verif_set_hook(Some(wire.clone()));
                n
            })
            .collect();
        let net_ids: Vec<u64> = nets.iter().map(|n| n.verif_id()).collect();
        let pcis: Vec<Pci> = attach.iter().map(|a| Pci::new(a.iter().map(|n| nets[*n].clone()))).collect();
        let macs: Vec<Vec<Mac>> = pcis.iter().map(|p| p.mac_addresses().collect()).collect();
        let mut machines = vec![];
        for (mi, pci) in pcis.into_iter().enumerate() {
            let mut table: IpTable<Recipient> = IpTable::new();
            for (li, a) in addrs[mi].iter().enumerate() {
                let (slot, policy) = routes.get(&(mi, li)).copied().unwrap_or((0, MacPolicy::Broadcast));
                let net = attach[mi][slot];
                let mac = match policy {
                    MacPolicy::Unicast(o) => {
                        let os = attach[o].iter().position(|n| *n == net).unwrap();
                        Some(macs[o][os])
                    }
                    MacPolicy::UnknownMac => Some(0x0000_4444_0000_0001),
                    MacPolicy::Broadcast | MacPolicy::ArpResolve => None,
                };
                table.add_direct(*a, Recipient::new(slot as u32, mac));
            }
            let mut m = Machine::new().with(pci).with(Ipv4::new(table)).with(Udp::new());
            if arp {
                m = m.with(Arp::new());
            }
            for (ai, eps) in binds[mi].iter().enumerate() {
                let lb: Vec<(Duration, Endpoint)> = late.iter().filter(|l| l.0 == mi && l.1 == ai).map(|l| (l.2, l.3)).collect();
                m = with_recorder_late(m, ai, mi, &wire, &log, eps.clone(), &bind_results, lb, &late_results);
            }
            m = m.with(UdpSender { sends: sends.iter().filter(|s| s.m == mi).map(|s| s.send.clone()).collect(), results: send_results.clone(), wire: wire.clone() });
            machines.push(m.arc());
        }
        let _release = ReleaseOnDrop(machines.clone());
        let (_status, panics): (Option<_>, _) = run_virtual(async { run_internet_with_timeout(&machines, Duration::from_secs(10)).await });
        panics_to_failure(&panics)?;

        if ctx.want_desc {
            ctx.desc = Some(json!({
                "mtus": mtus, "arp": arp, "attachments": attach, "late_binds": late.iter().map(|l| format!("m{} app{} at {:?}: {}:{}", l.0, l.1, l.2, l.3.address, l.3.port)).collect::<Vec<_>>(),
                "binds": binds.iter().enumerate().map(|(m, a)| a.iter().enumerate().map(|(i, eps)| format!("m{m} app{i}: {:?}", eps.iter().map(|e| format!("{}:{}", e.address, e.port)).collect::<Vec<_>>())).collect::<Vec<_>>()).collect::<Vec<_>>(),
                "sends": sends.iter().map(|s| format!("m{} t={}ms {}:{} -> {}:{} len {} via slot {} {:?}", s.m, s.send.at_ms, s.send.local.address, s.send.local.port, s.send.remote.address, s.send.remote.port, s.send.payload.len(), s.slot, s.policy)).collect::<Vec<_>>(),
                "frames": wire.snapshot().iter().map(|f| format!("t={:?} net {} {:?} {}->{:?} {} bytes delivered to {:?}", f.t, f.net, f.proto, f.sender, f.dest, f.bytes.len(), f.deliveries.iter().map(|d| d.0).collect::<Vec<_>>())).collect::<Vec<_>>(),
            }));
        }
        // ---- bindings: who holds each endpoint
        let br: Vec<(usize, usize, Endpoint, bool)> = bind_results.lock().unwrap().clone();
        let mut owner: BTreeMap<(usize, [u8; 4], u16), usize> = BTreeMap::new();
        let mut second_bind = false;
        for (m, app, ep, ok) in &br {
            let key = (*m, ep.address.to_bytes(), ep.port);
            if *ok {
                ensure!(!owner.contains_key(&key), "duplicate_bind_refused", "second_bind_accepted", "machine {m}: endpoint {ep:?} was bound twice successfully (apps {} and {app})", owner[&key]);
                owner.insert(key, *app);
            } else {
                ensure!(owner.contains_key(&key), "duplicate_bind_refused", "first_bind_refused", "machine {m}: bind of {ep:?} by app {app} was refused although nobody holds it");
                second_bind = true;
            }
        }
        // late binds in the order in which they were made: (machine, key) -> (app, since)
        let mut late_owner: Vec<((usize, [u8; 4], u16), usize, Duration)> = vec![];
        let mut lr = late_results.lock().unwrap().clone();
        lr.sort_by_key(|l| l.4);
        ensure!(lr.len() == late.len(), "harness", "late_bind_results", "{} late bind results for {} late binds", lr.len(), late.len());
        for (m, app, ep, ok, t) in &lr {
            let key = (*m, ep.address.to_bytes(), ep.port);
            let held = owner.contains_key(&key) || late_owner.iter().any(|l| l.0 == key);
            if *ok {
                ensure!(!held, "duplicate_bind_refused", "second_bind_accepted", "machine {m}: endpoint {ep:?} was bound at {t:?} by app {app} although it was bound already");
                late_owner.push((key, *app, *t));
                ctx.class("bind_while_running");
            } else {
                ensure!(held, "duplicate_bind_refused", "first_bind_refused", "machine {m}: bind of {ep:?} by app {app} at {t:?} was refused although nobody holds it");
                second_bind = true;
            }
        }
        let owner_at = |m: usize, addr: [u8; 4], port: u16, t: Duration| -> (Option<usize>, bool) {
            // (owner, ambiguous: a bind of this endpoint was made in the same instant)
            if let Some(a) = owner.get(&(m, addr, port)) {
                return (Some(*a), false);
            }
            match late_owner.iter().find(|l| l.0 == (m, addr, port)) {
                Some(l) if l.2 < t => (Some(l.1), false),
                Some(l) if l.2 == t => (None, true),
                _ => (None, false),
            }
        };
        let total_binds: usize = binds.iter().map(|a| a.iter().map(|e| e.len()).sum::<usize>()).sum();
        ensure!(br.len() == total_binds, "harness", "bind_results", "{} bind results for {} binds", br.len(), total_binds);

        // ---- model
        let res = send_results.lock().unwrap().clone();
        let recs = log.lock().unwrap().clone();
        let frames = wire.snapshot();
        let mut nontrivial = false;
        let mut expected: Vec<(usize, usize, u32)> = vec![]; // (machine, app, tag)
        let mut ambiguous: Vec<(usize, u32)> = vec![]; // (machine, tag): a bind of the endpoint in the instant of the delivery
        for s in &sends {
            let net = attach[s.m][s.slot];
            let mtu = mtus[net] as usize;
            let r = res.iter().find(|r| r.tag == s.send.tag);
            let oversize = s.send.payload.len() + 28 > mtu;
            // which machines does the frame reach: taken from the wire (the frame hook sees every delivery),
            // so that this check does not depend on ARP resolving correctly (C06's job)
            let link_broadcast = s.send.remote.address == Ipv4Address::SUBNET || s.policy == MacPolicy::Broadcast;
            let carrying: Vec<&FrameRec> = frames
                .iter()
                .filter(|f| f.proto == Proto::Ipv4 && f.bytes.len() == 28 + s.send.payload.len() && f.bytes[12..16] == s.send.local.address.to_bytes() && f.bytes[20..22] == s.send.local.port.to_be_bytes() && f.bytes[28..] == s.send.payload[..])
                .collect();
            let arp_failed = s.policy == MacPolicy::ArpResolve && carrying.is_empty() && r.map(|r| !r.opened).unwrap_or(false);
            let mut reached: Vec<(usize, Duration)> = vec![];
            for f in &carrying {
                let ni = net_ids.iter().position(|n| *n == f.net).unwrap();
                for (tap, t_del) in &f.deliveries {
                    for o in 0..nm {
                        if let Some(si) = attach[o].iter().position(|n| *n == ni) {
                            if macs[o][si] == *tap && !(f.dest.is_none() || f.dest == Some(Network::BROADCAST_MAC)) || (macs[o][si] == *tap && o != s.m) {
                                reached.push((o, *t_del));
                            }
                        }
                    }
                }
            }
            let _ = link_broadcast;
            match r {
                None => ensure!(false, "harness", "send_missing", "send {:#x} never completed", s.send.tag),
                Some(r) => {
                    if arp_failed {
                        // C06 owns ARP; here only: nothing may be delivered
                        let _ = r;
                    } else if oversize {
                        ensure!(r.opened && r.sent == Some(false), "oversize_refused", "oversize_sent", "payload of {} bytes on MTU {} was not refused: {:?}", s.send.payload.len(), mtu, r);
                    } else {
                        ensure!(r.opened && r.sent == Some(true), "send_accepted", "fitting_refused", "payload of {} bytes on MTU {} was refused: {:?}", s.send.payload.len(), mtu, r);
                    }
                }
            }
            if oversize || arp_failed {
                continue;
            }
            for (o, t_del) in reached {
                let (exact, amb1) = owner_at(o, s.send.remote.address.to_bytes(), s.send.remote.port, t_del);
                let (wild, amb2) = owner_at(o, [0, 0, 0, 0], s.send.remote.port, t_del);
                if amb1 || amb2 {
                    ambiguous.push((o, s.send.tag));
                    continue;
                }
                if let Some(app) = exact.or(wild) {
                    expected.push((o, app, s.send.tag));
                }
                if late_owner.iter().any(|l| l.0 .0 == o && l.0 .2 == s.send.remote.port && l.2 < t_del) {
                    nontrivial = true;
                    ctx.class("delivered_after_a_bind_made_while_running");
                }
                if exact.is_some() && wild.is_some() {
                    nontrivial = true;
                    ctx.class("exact_and_wildcard_compete");
                }
                let has_nonmatching = owner.keys().chain(late_owner.iter().filter(|l| l.2 < t_del).map(|l| &l.0)).any(|k| k.0 == o && (k.2 != s.send.remote.port || (k.1 != s.send.remote.address.to_bytes() && k.1 != [0, 0, 0, 0])));
                if has_nonmatching {
                    nontrivial = true;
                    ctx.class("reached_machine_has_non_matching_binding");
                }
            }
        }
        // observed (ignoring the sender's own machine for link broadcasts)
        let mut observed: Vec<(usize, usize, u32)> = vec![];
        for d in &recs {
            let tag = if d.payload.len() >= 4 { u32::from_be_bytes([d.payload[0], d.payload[1], d.payload[2], d.payload[3]]) } else { 0 };
            let Some(s) = sends.iter().find(|s| s.send.tag == tag && s.send.payload == d.payload) else {
                // zero-length payloads carry no tag: match by headers
                if d.payload.is_empty() {
                    if let (Some(ip), Some(udp)) = (d.ipv4, d.udp) {
                        if let Some(s) = sends.iter().find(|s| s.send.payload.is_empty() && s.send.local.port == udp.source && s.send.local.address == ip.source) {
                            let lb = s.send.remote.address == Ipv4Address::SUBNET || s.policy == MacPolicy::Broadcast;
                            if !(lb && d.machine == s.m) {
                                ensure!(ip.destination == s.send.remote.address && udp.destination == s.send.remote.port, "endpoints_attached", "destination", "empty datagram delivered with destination {}:{}", ip.destination, udp.destination);
                                observed.push((d.machine, d.app, s.send.tag));
                            }
                            continue;
                        }
                    }
                }
                ensure!(false, "payload_intact", "unknown_payload", "machine {} app {} received a payload nobody sent ({} bytes)", d.machine, d.app, d.payload.len());
                continue;
            };
            let lb = s.send.remote.address == Ipv4Address::SUBNET || s.policy == MacPolicy::Broadcast;
            if lb && d.machine == s.m {
                continue;
            }
            let (Some(ip), Some(udp)) = (d.ipv4, d.udp) else {
                ensure!(false, "endpoints_attached", "missing_headers", "demux without IPv4/UDP headers in Control");
                continue;
            };
            ensure!(ip.source == s.send.local.address && udp.source == s.send.local.port, "endpoints_attached", "source", "datagram {:#x}: source {}:{} attached, sent from {}:{}", tag, ip.source, udp.source, s.send.local.address, s.send.local.port);
            ensure!(ip.destination == s.send.remote.address && udp.destination == s.send.remote.port, "endpoints_attached", "destination", "datagram {:#x}: destination {}:{} attached, sent to {}:{}", tag, ip.destination, udp.destination, s.send.remote.address, s.send.remote.port);
            observed.push((d.machine, d.app, tag));
        }
        observed.retain(|x| !ambiguous.contains(&(x.0, x.2)));
        expected.sort();
        observed.sort();
        if expected != observed {
            let missing: Vec<_> = expected.iter().filter(|x| !observed.contains(x)).collect();
            let extra: Vec<_> = observed.iter().filter(|x| !expected.contains(x)).collect();
            let tag = if !extra.is_empty() { "delivered_to_wrong_listener" } else { "not_delivered" };
            return Err(Failure::new("delivery_model", tag, format!("(machine, app, datagram) expected but missing: {missing:?}; delivered but not expected: {extra:?}; bindings {owner:?}, made while running {late_owner:?}")));
        }
        ctx.nontrivial = nontrivial;
        if second_bind {
            ctx.class("second_bind_refused");
        }
        if arp {
            ctx.class("with_arp");
        }
        let _ = s_unused(&sends.iter().map(|s| s.local_idx).collect::<Vec<_>>());
        Ok(())
    }
}

fn s_unused(_x: &[usize]) {}
