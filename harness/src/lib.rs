//! vcheck <PROPERTY> <quick|thorough>            run the check, write evidence, exit 0/1/2
//! vcheck <PROPERTY> --replay <file>             re-run one saved case, bypassing proptest

#[macro_use]
pub mod engine;
pub mod c07_message;
pub mod c09_iptable;
pub mod c10_fragment;
pub mod c11_reassembly;
pub mod c12_modcmp;
pub mod c15_ipgen;
pub mod c15_dhcp;
pub mod codecs;
pub mod sim;
pub mod c05_link;
pub mod c06_arp;
pub mod c13_barrier;
pub mod c14_frames;
pub mod c16_routing;
pub mod c20_dns;
pub mod c04_udp;
pub mod c02_sockets;
pub mod c02_dgram;
pub mod c18_wire;
pub mod ndl;
pub mod tcb_bench;
pub mod tcb_checks;

pub use engine::*;
use std::sync::Arc;

pub fn part(check: impl Check + 'static, quick: u64, thorough: u64) -> Part {
    Part {
        check: Arc::new(check),
        quick_cases: quick,
        thorough_cases: thorough,
    }
}

pub fn parts_for(id: &str) -> Option<Vec<Part>> {
    Some(match id {
        "C04" => vec![part(c04_udp::UdpDemux, 200_000, 6_000_000)],
        "C05" => vec![part(c05_link::LinkLayer, 20_000, 600_000)],
        "C06" => vec![part(c06_arp::ArpResolution, 800_000, 10_000_000)],
        "C07" => vec![part(c07_message::MessageOps, 400_000, 8_000_000)],
        "C09" => vec![
            part(c09_iptable::TableHistories, 1_500_000, 12_000_000),
            part(c09_iptable::NetArithmetic, 1_500_000, 16_000_000),
        ],
        "C08" => vec![part(codecs::Codecs, 2_000_000, 24_000_000)],
        "C10" => vec![part(c10_fragment::Fragmentation, 600_000, 6_000_000)],
        "C11" => vec![part(c11_reassembly::ReassemblyHistories, 100_000, 2_000_000)],
        "C01" => vec![part(tcb_checks::ReliableStream, 40_000, 3_000_000)],
        "C02" => vec![part(c02_sockets::StreamSockets { multi_thread: false }, 60_000, 2_000_000), part(c02_sockets::StreamSockets { multi_thread: true }, 640, 20_000), part(c02_dgram::DatagramSockets, 100_000, 3_000_000)],
        "C03" => vec![part(tcb_checks::OpenClose, 40_000, 3_000_000)],
        "C12" => vec![part(c12_modcmp::ModCmpLaws, 1_000_000, 8_000_000), part(tcb_checks::IsnIndependence, 20_000, 1_500_000)],
        "C16" => vec![part(c16_routing::Routing, 600_000, 10_000_000)],
        "C17" => vec![part(tcb_checks::HostileSegments, 60_000, 4_000_000)],
        "C13" => vec![part(c13_barrier::BarrierAndStatus { mt: false }, 100_000, 3_000_000), part(c13_barrier::BarrierAndStatus { mt: true }, 320, 10_000)],
        "C14" => vec![part(codecs::DecodersNoPanic, 3_000_000, 30_000_000), part(ndl::NdlNoPanic, 300_000, 4_000_000), part(c14_frames::MalformedFrames, 60_000, 2_000_000)],
        "C19" => vec![part(ndl::NdlRoundTrip, 200_000, 3_000_000), part(ndl::NdlRun, 10_000, 150_000)],
        "C15" => vec![part(c15_ipgen::IpGenHistories, 1_000_000, 12_000_000), part(c15_dhcp::DhcpLeases, 200_000, 3_000_000)],
        "C18" => vec![part(codecs::Codecs, 400_000, 8_000_000), part(codecs::CorruptionRejected, 400_000, 8_000_000), part(c18_wire::WireChecksums, 20_000, 600_000), part(tcb_checks::ChecksumsOfTcb, 40_000, 2_000_000)],
        "C20" => vec![part(c20_dns::DnsResolution, 200_000, 6_000_000)],
        _ => return None,
    })
}


/// All part ids that can be driven by a byte-level fuzzer (synchronous checks only).
pub const FUZZ_PARTS: [(&str, &str); 13] = [
    ("C01", "C01"), ("C03", "C03"), ("C07", "C07"), ("C08", "C08"), ("C09", "C09.table"), ("C09", "C09.net"), ("C10", "C10"),
    ("C11", "C11"), ("C12", "C12.cmp"), ("C14", "C14.decoders"), ("C14", "C14.ndl"), ("C15", "C15.ipgen"), ("C17", "C17"),
];

/// One libFuzzer iteration: decode `data` as the entropy of part `part_id`, run the oracle, abort on an unlisted violation.
pub fn fuzz_one(property: &str, part_id: &str, data: &[u8]) {
    use std::sync::OnceLock;
    static CHECK: OnceLock<(std::sync::Arc<dyn Check>, Vec<Finding>)> = OnceLock::new();
    let (check, findings) = CHECK.get_or_init(|| {
        silence_stdout();
        install_panic_hook();
        let parts = parts_for(property).expect("unknown property");
        let p = parts.into_iter().find(|p| p.check.id() == part_id).expect("unknown part");
        let mut fs = load_findings();
        for f in fs.iter_mut() {
            if f.property == property {
                f.property = part_id.to_string();
            }
        }
        (p.check, fs)
    });
    let mut ctx = Ctx::default();
    let (r, _) = run_one(check.as_ref(), data, &mut ctx);
    if let Err(f) = r {
        if open_match(findings, part_id, &f).is_some() {
            return;
        }
        let path = write_replay(check.as_ref(), "thorough", 0, &f, data);
        eprintln!("VIOLATION property={} replay={}", property, path);
        eprintln!("  part={} oracle={} tag={}", part_id, f.oracle, f.tag);
        eprintln!("  {}", f.message);
        std::process::abort();
    }
}
