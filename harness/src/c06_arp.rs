//! C06: ARP resolves an IP address to its owner's (or the gateway's) MAC.

use crate::engine::*;
use crate::ensure;
use crate::sim::*;
use async_trait::async_trait;
use elvis_core::machine::Machine;
use elvis_core::message::Message;
use elvis_core::network::{Latency, Mac, NetworkBuilder};
use elvis_core::protocol::{DemuxError, StartError};
use elvis_core::protocols::arp::arp_parsing::{ArpPacket, Operation};
use elvis_core::protocols::arp::subnetting::{Ipv4Mask, SubnetInfo};
use elvis_core::protocols::ipv4::Ipv4Address;
use elvis_core::protocols::pci::Pci;
use elvis_core::protocols::{AddressPair, Arp};
use elvis_core::{run_internet_with_timeout, Control, Protocol, Session, Shutdown};
use serde_json::json;
use std::sync::{Arc, Mutex};
use std::time::Duration;
use tokio::sync::Barrier;

#[derive(Debug, Clone)]
struct Call {
    id: usize,
    machine: usize,
    local: Ipv4Address,
    target: Ipv4Address,
    at_ms: u64,
}

#[derive(Debug, Clone)]
struct CallResult {
    id: usize,
    result: Result<Mac, ()>,
    start: Duration,
    end: Duration,
}

struct Resolver {
    claims: Vec<Ipv4Address>,
    calls: Vec<Call>,
    results: Arc<Mutex<Vec<CallResult>>>,
    wire: Arc<Wire>,
}

#[async_trait]
impl Protocol for Resolver {
    async fn start(&self, _shutdown: Shutdown, initialized: Arc<Barrier>, machine: Arc<Machine>) -> Result<(), StartError> {
        let arp = machine.protocol::<Arp>().unwrap();
        for ip in &self.claims {
            arp.listen(*ip);
        }
        initialized.wait().await;
        self.wire.mark_start();
        let t0 = tokio::time::Instant::now();
        for c in self.calls.clone() {
            let machine = machine.clone();
            let results = self.results.clone();
            let wire = self.wire.clone();
            tokio::spawn(async move {
                tokio::time::sleep_until(t0 + Duration::from_millis(c.at_ms)).await;
                let arp = machine.protocol::<Arp>().unwrap();
                let start = wire.now();
                let r = arp.resolve(AddressPair { local: c.local, remote: c.target }, 0, machine.clone()).await;
                let end = wire.now();
                results.lock().unwrap().push(CallResult { id: c.id, result: r.map_err(|_| ()), start, end });
            });
        }
        Ok(())
    }
    fn demux(&self, _m: Message, _c: Arc<dyn Session>, _ctl: Control, _machine: Arc<Machine>) -> Result<(), DemuxError> {
        Ok(())
    }
}

pub struct ArpResolution;

fn mask_bits(m: u32) -> u32 {
    if m == 0 {
        0
    } else {
        u32::MAX << (32 - m)
    }
}

impl Check for ArpResolution {
    fn id(&self) -> &'static str {
        "C06"
    }
    fn rule(&self) -> String {
        "generated: one network (latency 0..50 ms) with 2..6 machines, each claiming 1..3 distinct addresses, optional subnet information per local address (mask 0..=32, default gateway claimed by some machine or by nobody), 1..8 resolver calls (machine, local address, target among claimed addresses incl. the resolver's own, unclaimed addresses and off-subnet addresses; start time 0..3 s with many coinciding), and a drop plan over ARP frames (none / the first k requests / a random subset of requests and replies); oracle: with target' = gateway when the reference subnet arithmetic puts the target off-subnet: Ok(mac) only if target' is claimed and mac is the MAC of the claiming machine's tap; if some request of this resolver's budget reached the owner and the owner's reply to it reached the resolver, the result must be Ok, and so it must if a request reached the owner (which may be the resolving machine itself) in time for an answer and no reply from the owner to this resolver was dropped (the owner has to answer); an unclaimed target' gives Err no later than start + RESEND_TRIES*RESEND_DELAY (constants read from the code) and, for the first resolver of that target on its machine, not before that budget is spent; resolvers of one machine whose calls overlap in time and have the same target' return equal results; every call returns. non-trivial: an ARP frame was dropped while success was still required, or the gateway was substituted, or the target is unclaimed. distinct: hash of decoded configuration".into()
    }
    fn assumptions(&self) -> Vec<String> {
        vec!["one network: multi-homed resolvers are outside the statement".into(), "claimed addresses are pairwise distinct".into()]
    }
    fn max_entropy(&self) -> usize {
        300
    }
    fn run(&self, e: &mut Entropy, ctx: &mut Ctx) -> Result<(), Failure> {
        let nm = 2 + e.choose(5);
        let latency = *e.pick(&[0u64, 0, 1, 10, 50]);
        let base: u32 = u32::from_be_bytes([10, 0, e.choose(3) as u8, 0]);
        // claimed addresses: spread over a few subnets
        let mut claims: Vec<Vec<u32>> = vec![];
        let mut all: Vec<(u32, usize)> = vec![];
        for m in 0..nm {
            let k = 1 + e.choose(3);
            let mut v = vec![];
            for _ in 0..k {
                for _ in 0..8 {
                    let a = base.wrapping_add((e.choose(4) as u32) << 8).wrapping_add(1 + e.choose(60) as u32);
                    if !all.iter().any(|x| x.0 == a) {
                        v.push(a);
                        all.push((a, m));
                        break;
                    }
                }
            }
            if v.is_empty() {
                let a = base.wrapping_add(0x0a00 + m as u32);
                v.push(a);
                all.push((a, m));
            }
            claims.push(v);
        }
        let unclaimed = |e: &mut Entropy| -> u32 {
            loop {
                let a = base.wrapping_add((e.choose(6) as u32) << 8).wrapping_add(100 + e.choose(100) as u32);
                if !all.iter().any(|x| x.0 == a) {
                    return a;
                }
            }
        };
        // subnet info per (machine, local)
        let mut subnets: Vec<Vec<Option<(u32, u32)>>> = vec![]; // (masklen, gateway)
        for m in 0..nm {
            let mut v = vec![];
            for _ in 0..claims[m].len() {
                if e.chance(2, 5) {
                    let mask = *e.pick(&[24u32, 24, 24, 16, 30, 32, 0, 8, 26]);
                    let gw = if e.chance(3, 4) { all[e.choose(all.len())].0 } else { unclaimed(e) };
                    v.push(Some((mask, gw)));
                } else {
                    v.push(None);
                }
            }
            subnets.push(v);
        }
        let ncalls = 1 + e.choose(8);
        let mut calls: Vec<(usize, usize, u32, u64)> = vec![];
        for id in 0..ncalls {
            let machine = if id > 0 && e.chance(1, 3) { calls[e.choose(id)].0 } else { e.choose(nm) };
            let li = e.choose(claims[machine].len());
            let target = if id > 0 && e.chance(1, 3) {
                let prev: &(usize, usize, u32, u64) = &calls[e.choose(id)];
                prev.2
            } else {
                match e.weighted(&[6, 2, 1]) {
                    0 => all[e.choose(all.len())].0,
                    1 => unclaimed(e),
                    _ => claims[machine][e.choose(claims[machine].len())],
                }
            };
            let at = match e.weighted(&[3, 2, 2]) {
                0 => 0,
                1 => e.choose(300) as u64,
                _ => e.choose(3000) as u64,
            };
            calls.push((machine, li, target, at));
        }
        // drop plan
        let plan_kind = e.weighted(&[3, 3, 4]);
        let first_k = e.choose(12);
        let drop_bits: Vec<bool> = (0..24).map(|_| e.chance(2, 5)).collect();

        // ---- build
        let wire = Wire::new();
        let bits = drop_bits.clone();
        wire.set_planner(Box::new(move |f, earlier| {
            if f.proto != Proto::Arp {
                return Decision::default();
            }
            let n = earlier.iter().filter(|x| x.proto == Proto::Arp).count();
            let is_req = f.dest.is_none();
            let drop = match plan_kind {
                0 => false,
                1 => is_req && earlier.iter().filter(|x| x.proto == Proto::Arp && x.dest.is_none()).count() < first_k,
                _ => bits[n % bits.len()],
            };
            Decision { drop, delay_ms: 0, copies: vec![] }
        }));
        let mut nb = NetworkBuilder::new();
        if latency > 0 {
            nb = nb.latency(Latency::constant(Duration::from_millis(latency)));
        }
        let net = nb.build();
        net.verif_set_hook(Some(wire.clone()));
        let results: Arc<Mutex<Vec<CallResult>>> = Default::default();
        let mut machines = vec![];
        let mut macs = vec![];
        for m in 0..nm {
            let pci = Pci::new([net.clone()]);
            macs.push(pci.mac_addresses().next().unwrap());
            let mut arp = Arp::new();
            for (li, s) in subnets[m].iter().enumerate() {
                if let Some((mask, gw)) = s {
                    arp = arp.preconfig_subnet(Ipv4Address::from(claims[m][li]), SubnetInfo::new(Ipv4Mask::from_bitcount(*mask), Ipv4Address::from(*gw)));
                }
            }
            let my_calls: Vec<Call> = calls.iter().enumerate().filter(|(_, c)| c.0 == m).map(|(id, c)| Call { id, machine: m, local: Ipv4Address::from(claims[m][c.1]), target: Ipv4Address::from(c.2), at_ms: c.3 }).collect();
            let r = Resolver { claims: claims[m].iter().map(|a| Ipv4Address::from(*a)).collect(), calls: my_calls, results: results.clone(), wire: wire.clone() };
            machines.push(Machine::new().with(pci).with(arp).with(r).arc());
        }
        let budget = Arp::RESEND_DELAY * Arp::RESEND_TRIES;
        let horizon = Duration::from_millis(3000) + budget * 2 + Duration::from_secs(5);
        let _release = ReleaseOnDrop(machines.clone());
        let (_st, panics): (Option<_>, _) = run_virtual(async { run_internet_with_timeout(&machines, horizon).await });
        panics_to_failure(&panics)?;
        let res = results.lock().unwrap().clone();
        let frames = wire.snapshot();
        if ctx.want_desc {
            ctx.desc = Some(json!({
                "latency_ms": latency,
                "claims": claims.iter().enumerate().map(|(m, v)| format!("m{m} (mac {}): {:?}", macs[m], v.iter().map(|a| Ipv4Address::from(*a).to_string()).collect::<Vec<_>>())).collect::<Vec<_>>(),
                "subnets": subnets.iter().enumerate().map(|(m, v)| format!("m{m}: {:?}", v.iter().map(|s| s.map(|(k, g)| format!("/{k} gw {}", Ipv4Address::from(g)))).collect::<Vec<_>>())).collect::<Vec<_>>(),
                "calls": calls.iter().map(|c| format!("m{} local {} target {} at {} ms", c.0, Ipv4Address::from(claims[c.0][c.1]), Ipv4Address::from(c.2), c.3)).collect::<Vec<_>>(),
                "plan": format!("kind {plan_kind} first_k {first_k}"),
                "results": res.iter().map(|r| format!("call {}: {:?} from {:?} to {:?}", r.id, r.result, r.start, r.end)).collect::<Vec<_>>(),
                "arp_frames": frames.iter().filter(|f| f.proto == Proto::Arp).map(|f| format!("t={:?} {}->{:?} dropped={} delivered={:?}", f.t, f.sender, f.dest, f.dropped, f.deliveries.iter().map(|d| d.0).collect::<Vec<_>>())).collect::<Vec<_>>(),
            }));
        }
        ensure!(res.len() == calls.len(), "resolution_returns", "hang", "{} of {} resolver calls returned within {:?} of virtual time", res.len(), calls.len(), horizon);

        // parsed ARP frames
        let arp_frames: Vec<(&FrameRec, ArpPacket)> = frames.iter().filter(|f| f.proto == Proto::Arp).filter_map(|f| ArpPacket::from_bytes(f.bytes.iter().cloned()).ok().map(|p| (f, p))).collect();
        let mut nontrivial = false;
        let mut eff: Vec<(u32, Option<usize>)> = vec![]; // per call: target', owner
        for (id, c) in calls.iter().enumerate() {
            let local = claims[c.0][c.1];
            let mut t = c.2;
            if let Some((mask, gw)) = subnets[c.0][c.1] {
                if local & mask_bits(mask) != t & mask_bits(mask) {
                    t = gw;
                    nontrivial = true;
                    ctx.class("gateway_substituted");
                }
            }
            let owner = all.iter().find(|x| x.0 == t).map(|x| x.1);
            eff.push((t, owner));
            let r = res.iter().find(|r| r.id == id).unwrap();
            let elapsed = r.end.saturating_sub(r.start);
            ensure!(elapsed <= budget + Duration::from_millis(1), "bounded_retry", "too_long", "call {id}: resolve took {:?}, more than RESEND_TRIES*RESEND_DELAY = {:?}", elapsed, budget);
            match (r.result, owner) {
                (Ok(mac), Some(o)) => ensure!(mac == macs[o], "owner_mac", "wrong_mac", "call {id}: {} resolved to MAC {mac} but it is claimed by machine {o} whose MAC is {}", Ipv4Address::from(t), macs[o]),
                (Ok(mac), None) => ensure!(false, "owner_mac", "unclaimed_resolved", "call {id}: {} is claimed by nobody but resolved to MAC {mac}", Ipv4Address::from(t)),
                (Err(()), None) => {
                    nontrivial = true;
                    ctx.class("unclaimed_target");
                    // first resolver of that target on that machine must have waited at least one RESEND_DELAY
                    let earlier = calls.iter().enumerate().any(|(j, d)| j != id && d.0 == c.0 && {
                        let mut tj = d.2;
                        if let Some((mask, gw)) = subnets[d.0][d.1] {
                            if claims[d.0][d.1] & mask_bits(mask) != tj & mask_bits(mask) {
                                tj = gw;
                            }
                        }
                        tj == t && res.iter().find(|x| x.id == j).map(|x| x.start <= r.start).unwrap_or(false)
                    });
                    if !earlier {
                        // nobody answers: the whole retry budget must have been spent before giving up
                        ensure!(elapsed + Duration::from_millis(1) >= budget, "bounded_retry", "gave_up_early", "call {id}: gave up after {:?}, before the retry budget RESEND_TRIES*RESEND_DELAY = {:?} was spent", elapsed, budget);
                    }
                }
                (Err(()), Some(o)) => {
                    // must succeed if an exchange of this call's budget got through; the reply must have arrived strictly
                    // before the call ended: in the instant in which the budget runs out the give-up may come first
                    let me = macs[c.0];
                    let got_through = arp_frames.iter().any(|(f, p)| {
                        p.oper == Operation::Request && f.sender == me && p.target_ip.to_u32() == t && !f.dropped && f.t >= r.start && f.t <= r.end && f.deliveries.iter().any(|d| d.0 == macs[o])
                            && arp_frames.iter().any(|(g, q)| q.oper == Operation::Reply && g.sender == macs[o] && q.sender_ip.to_u32() == t && g.dest == Some(me) && !g.dropped && g.t >= f.t && g.deliveries.iter().any(|d| d.0 == me && d.1 < r.end))
                    });
                    // a request of this call reached the owner in time for an answer and no reply from the owner to this
                    // resolver was lost: the owner must have answered (also when the owner is the resolving machine itself)
                    let reply_lost = arp_frames.iter().any(|(g, q)| q.oper == Operation::Reply && g.sender == macs[o] && g.dest == Some(me) && g.dropped);
                    let asked_in_time = arp_frames.iter().any(|(f, p)| {
                        p.oper == Operation::Request && f.sender == me && p.target_ip.to_u32() == t && !f.dropped && f.t >= r.start && f.t + Duration::from_millis(2 * latency + 1) < r.end && f.deliveries.iter().any(|d| d.0 == macs[o])
                    });
                    ensure!(!(asked_in_time && !reply_lost), "success_when_exchange_gets_through", "owner_did_not_answer", "call {id}: resolving {} failed although a request reached its owner (machine {o}{}) in time and no reply was lost", Ipv4Address::from(t), if o == c.0 { ", the resolving machine itself" } else { "" });
                    ensure!(!got_through, "success_when_exchange_gets_through", "failed_despite_exchange", "call {id}: resolving {} failed although a request reached its owner (machine {o}) and the reply reached the resolver within the call", Ipv4Address::from(t));
                }
            }
            if r.result.is_ok() && arp_frames.iter().any(|(f, _)| f.dropped && f.t >= r.start && f.t <= r.end) {
                nontrivial = true;
                ctx.class("succeeded_despite_drops");
            }
        }
        // concurrent resolvers of the same effective target on one machine agree
        for i in 0..calls.len() {
            for j in (i + 1)..calls.len() {
                if calls[i].0 != calls[j].0 || eff[i].0 != eff[j].0 {
                    continue;
                }
                let (ri, rj) = (res.iter().find(|r| r.id == i).unwrap(), res.iter().find(|r| r.id == j).unwrap());
                let overlap = ri.start < rj.end && rj.start < ri.end;
                // an Err and an Ok are both right when they end in the same instant: the retry budget of one call ran out in
                // the very instant in which the reply for the other arrived (either may come first within that instant)
                let same_instant_err_ok = ri.end == rj.end && ri.result.is_ok() != rj.result.is_ok();
                if overlap && !same_instant_err_ok {
                    ensure!(ri.result == rj.result, "concurrent_resolvers_agree", "different_answers", "calls {i} and {j} on machine {} for {} overlapped in time but returned {:?} and {:?}", calls[i].0, Ipv4Address::from(eff[i].0), ri.result, rj.result);
                    ctx.class("concurrent_resolvers");
                }
            }
        }
        ctx.nontrivial = nontrivial;
        Ok(())
    }
}
