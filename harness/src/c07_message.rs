//! C07: Message behaves as an immutable byte string under all operations.
//! Stateful model-based check: a pool of (Message, Vec<u8>) pairs, every pool entry is compared
//! with its model after every operation.

use crate::engine::*;
use crate::{ensure, fail};
use elvis_core::Message;
use serde_json::json;

pub struct MessageOps;

struct Entry {
    m: Message,
    v: Vec<u8>,
    /// positions where the harness knows a chunk boundary was created (generator guidance only)
    bounds: Vec<usize>,
    /// family id: entries derived from a common ancestor share storage
    family: u32,
    /// upper bound on the number of chunks (self-concatenation doubles it even for empty messages)
    chunks: usize,
}

fn pos(e: &mut Entropy, len: usize, bounds: &[usize]) -> (usize, bool) {
    let w = if bounds.is_empty() { [0, 2, 2, 4] } else { [5, 2, 2, 3] };
    match e.weighted(&w) {
        0 => {
            let b = bounds[e.choose(bounds.len())] as i64;
            let d = e.choose(3) as i64 - 1;
            let p = (b + d).clamp(0, len as i64) as usize;
            (p, d == 0 && p > 0 && p < len)
        }
        1 => (0, false),
        2 => (len, false),
        _ => {
            let p = e.choose(len + 1);
            (p, bounds.contains(&p) && p > 0 && p < len)
        }
    }
}

fn payload(e: &mut Entropy, counter: &mut u8) -> Vec<u8> {
    let n = match e.weighted(&[3, 6, 3, 1]) {
        0 => 0,
        1 => 1 + e.choose(8),
        2 => 9 + e.choose(40),
        _ => 50 + e.choose(300),
    };
    (0..n)
        .map(|_| {
            *counter = counter.wrapping_add(1);
            if *counter == 0 {
                *counter = 1;
            }
            *counter
        })
        .collect()
}

fn check_entry(idx: usize, en: &Entry, step: usize) -> Result<(), Failure> {
    let m = &en.m;
    let v = &en.v;
    ensure!(m.len() == v.len(), "model_agreement", "len", "step {step}: entry {idx}: len {} != model {}", m.len(), v.len());
    ensure!(m.is_empty() == v.is_empty(), "model_agreement", "is_empty", "step {step}: entry {idx}: is_empty mismatch");
    let it: Vec<u8> = m.iter().collect();
    ensure!(&it == v, "model_agreement", "iter", "step {step}: entry {idx}: iter {:?} != model {:?}", it, v);
    ensure!(&m.to_vec() == v, "model_agreement", "to_vec", "step {step}: entry {idx}: to_vec != model");
    let fresh = Message::new(v.clone());
    ensure!(*m == fresh && fresh == *m, "model_agreement", "eq", "step {step}: entry {idx}: != Message::new(model)");
    if v.len() <= 64 {
        let mut want = String::new();
        for b in v {
            want.push_str(&format!("{b:02x} "));
        }
        ensure!(format!("{m}") == want, "model_agreement", "display", "step {step}: entry {idx}: Display mismatch");
        ensure!(format!("{m:?}") == format!("Message({want})"), "model_agreement", "debug", "step {step}: entry {idx}: Debug mismatch");
    }
    Ok(())
}

impl Check for MessageOps {
    fn id(&self) -> &'static str {
        "C07"
    }
    fn rule(&self) -> String {
        "generated: 1..60 operations {new via every From impl, header, concatenate(clone or move, incl. self), slice (6 range forms), cut, remove_front, clone, drop} over a pool of <= 8 messages, positions drawn with mass on tracked chunk boundaries +-1, 0 and len; oracle: after every operation every pool entry agrees with its Vec<u8> model on len/is_empty/iter/to_vec/==/Display/Debug and pairwise equality agrees with the models. non-trivial: an aliasing operation (clone / cut / concatenate of a live entry) was later followed by a mutation of one of the aliases AND some cut/slice/remove_front position was exactly on a chunk boundary strictly inside the message. distinct: hash of the decoded operation sequence".into()
    }
    fn assumptions(&self) -> Vec<String> {
        vec!["slice/cut/remove_front are only called with in-range arguments (they assert otherwise), as every caller in the repository does".into()]
    }
    fn max_entropy(&self) -> usize {
        600
    }

    fn run(&self, e: &mut Entropy, ctx: &mut Ctx) -> Result<(), Failure> {
        let mut pool: Vec<Entry> = Vec::new();
        let mut counter = 0u8;
        let mut next_family = 0u32;
        let nops = 1 + e.choose(60);
        let mut ops_desc: Vec<String> = Vec::new();
        // aliasing bookkeeping
        let mut aliased_families: Vec<u32> = Vec::new();
        let mut alias_then_mutation = false;
        let mut on_boundary = false;
        let mut empty_chunk = false;

        for step in 0..nops {
            let op = if pool.is_empty() { 0 } else { e.weighted(&[3, 3, 3, 5, 4, 3, 2, 1]) };
            match op {
                0 => {
                    let bytes = payload(e, &mut counter);
                    let form = e.choose(6);
                    let m = match form {
                        0 => Message::new(bytes.clone()),
                        1 => Message::new(bytes.as_slice()),
                        2 => Message::from(bytes.clone()),
                        3 => Message::from(bytes.as_slice()),
                        4 => {
                            // via String / &str when the bytes are ASCII (they are: 1..=255 is not, so map)
                            let s: String = bytes.iter().map(|b| (b % 95 + 32) as char).collect();
                            let bytes2 = s.as_bytes().to_vec();
                            let m = if e.bool() { Message::new(s.as_str()) } else { Message::new(s.clone()) };
                            pool.push(Entry { m, v: bytes2, bounds: vec![], family: next_family, chunks: 1 });
                            next_family += 1;
                            ops_desc.push(format!("new_str(len {})", s.len()));
                            if pool.len() > 8 {
                                pool.remove(0);
                            }
                            for (i, en) in pool.iter().enumerate() {
                                check_entry(i, en, step)?;
                            }
                            continue;
                        }
                        _ => {
                            if bytes.len() >= 4 {
                                let arr: [u8; 4] = [bytes[0], bytes[1], bytes[2], bytes[3]];
                                let m = if e.bool() { Message::from(arr) } else { Message::new(&arr) };
                                pool.push(Entry { m, v: arr.to_vec(), bounds: vec![], family: next_family, chunks: 1 });
                                next_family += 1;
                                ops_desc.push("new_array4".into());
                                if pool.len() > 8 {
                                    pool.remove(0);
                                }
                                for (i, en) in pool.iter().enumerate() {
                                    check_entry(i, en, step)?;
                                }
                                continue;
                            }
                            Message::new(bytes.clone())
                        }
                    };
                    if bytes.is_empty() {
                        empty_chunk = true;
                    }
                    ops_desc.push(format!("new(form {form}, len {})", bytes.len()));
                    pool.push(Entry { m, v: bytes, bounds: vec![], family: next_family, chunks: 1 });
                    next_family += 1;
                }
                1 => {
                    let i = e.choose(pool.len());
                    let h = payload(e, &mut counter);
                    if h.is_empty() {
                        empty_chunk = true;
                    }
                    let en = &mut pool[i];
                    if aliased_families.contains(&en.family) {
                        alias_then_mutation = true;
                    }
                    en.m.header(h.clone());
                    en.chunks += 1;
                    let hl = h.len();
                    let mut nb: Vec<usize> = en.bounds.iter().map(|b| b + hl).collect();
                    nb.push(hl);
                    en.bounds = nb;
                    let mut nv = h;
                    nv.extend_from_slice(&en.v);
                    en.v = nv;
                    ops_desc.push(format!("header({i}, len {hl})"));
                }
                2 => {
                    let i = e.choose(pool.len());
                    let j = e.choose(pool.len());
                    if pool[i].v.len() + pool[j].v.len() > 1 << 16 || pool[i].chunks + pool[j].chunks > 4096 {
                        // repeated self-concatenation doubles the size each time: keep cases small
                        continue;
                    }
                    let moved = i != j && e.bool();
                    let (om, ov, ob, ofam) = {
                        let o = &pool[j];
                        (o.m.clone(), o.v.clone(), o.bounds.clone(), o.family)
                    };
                    let oc = pool[j].chunks;
                    if !moved {
                        aliased_families.push(ofam);
                    }
                    let en = &mut pool[i];
                    if aliased_families.contains(&en.family) {
                        alias_then_mutation = true;
                    }
                    let l0 = en.v.len();
                    en.m.concatenate(om);
                    en.chunks += oc;
                    en.v.extend_from_slice(&ov);
                    en.bounds.push(l0);
                    en.bounds.extend(ob.iter().map(|b| b + l0));
                    // the result shares storage with both families; keep the target's id but mark it aliased
                    if !moved {
                        let f = en.family;
                        aliased_families.push(f);
                    }
                    ops_desc.push(format!("concatenate({i}, {}{j})", if moved { "move " } else { "clone " }));
                    if moved {
                        pool.remove(j);
                    }
                }
                3 => {
                    let i = e.choose(pool.len());
                    let form = e.choose(6);
                    let en = &mut pool[i];
                    let len = en.v.len();
                    let (a, ab) = pos(e, len, &en.bounds);
                    let (b, bb) = pos(e, len, &en.bounds);
                    let (a, b) = if a <= b { (a, b) } else { (b, a) };
                    if aliased_families.contains(&en.family) {
                        alias_then_mutation = true;
                    }
                    // returns (start, end_exclusive)
                    let (s, t) = match form {
                        0 => {
                            en.m.slice(a..b);
                            (a, b)
                        }
                        1 => {
                            en.m.slice(a..);
                            (a, len)
                        }
                        2 => {
                            en.m.slice(..);
                            (0, len)
                        }
                        3 => {
                            // a..=c with c < len and a <= c+1
                            if len == 0 {
                                en.m.slice(0..0);
                                (0, 0)
                            } else {
                                let c = b.min(len - 1);
                                let a = a.min(c + 1);
                                if a == c + 1 {
                                    // empty inclusive range: expressed as a..=a-1 is not writable for a == 0
                                    if a == 0 {
                                        en.m.slice(0..0);
                                        (0, 0)
                                    } else {
                                        #[allow(clippy::reversed_empty_ranges)]
                                        en.m.slice(a..=(a - 1));
                                        (a, a)
                                    }
                                } else {
                                    en.m.slice(a..=c);
                                    (a, c + 1)
                                }
                            }
                        }
                        4 => {
                            en.m.slice(..b);
                            (0, b)
                        }
                        _ => {
                            if len == 0 {
                                en.m.slice(..0);
                                (0, 0)
                            } else {
                                let c = b.min(len - 1);
                                en.m.slice(..=c);
                                (0, c + 1)
                            }
                        }
                    };
                    if (ab && s == a) || (bb && t == b) || (s > 0 && s < len && en.bounds.contains(&s)) || (t > 0 && t < len && en.bounds.contains(&t)) {
                        on_boundary = true;
                    }
                    en.v = en.v[s..t].to_vec();
                    en.bounds = en.bounds.iter().filter(|x| **x > s && **x < t).map(|x| x - s).collect();
                    ops_desc.push(format!("slice({i}, form {form}, {s}..{t} of {len})"));
                }
                4 => {
                    let i = e.choose(pool.len());
                    let en = &mut pool[i];
                    let len = en.v.len();
                    let (k, kb) = pos(e, len, &en.bounds);
                    if kb {
                        on_boundary = true;
                    }
                    if aliased_families.contains(&en.family) {
                        alias_then_mutation = true;
                    }
                    let prefix = en.m.cut(k);
                    let pv = en.v[..k].to_vec();
                    let pb: Vec<usize> = en.bounds.iter().filter(|x| **x < k && **x > 0).copied().collect();
                    en.v = en.v[k..].to_vec();
                    en.bounds = en.bounds.iter().filter(|x| **x > k).map(|x| x - k).collect();
                    let fam = en.family;
                    aliased_families.push(fam);
                    let pc = en.chunks;
                    pool.push(Entry { m: prefix, v: pv, bounds: pb, family: fam, chunks: pc });
                    ops_desc.push(format!("cut({i}, {k} of {len})"));
                }
                5 => {
                    let i = e.choose(pool.len());
                    let en = &mut pool[i];
                    let len = en.v.len();
                    let (k, kb) = pos(e, len, &en.bounds);
                    if kb {
                        on_boundary = true;
                    }
                    if aliased_families.contains(&en.family) {
                        alias_then_mutation = true;
                    }
                    en.m.remove_front(k);
                    en.v = en.v[k..].to_vec();
                    en.bounds = en.bounds.iter().filter(|x| **x > k).map(|x| x - k).collect();
                    ops_desc.push(format!("remove_front({i}, {k} of {len})"));
                }
                6 => {
                    let i = e.choose(pool.len());
                    let en = &pool[i];
                    let c = Entry { m: en.m.clone(), v: en.v.clone(), bounds: en.bounds.clone(), family: en.family, chunks: en.chunks };
                    aliased_families.push(en.family);
                    pool.push(c);
                    ops_desc.push(format!("clone({i})"));
                }
                _ => {
                    let i = e.choose(pool.len());
                    pool.remove(i);
                    ops_desc.push(format!("drop({i})"));
                }
            }
            if pool.len() > 8 {
                pool.remove(0);
            }
            for (i, en) in pool.iter().enumerate() {
                check_entry(i, en, step)?;
            }
            // pairwise equality agrees with the models
            for i in 0..pool.len() {
                for j in (i + 1)..pool.len() {
                    let want = pool[i].v == pool[j].v;
                    if (pool[i].m == pool[j].m) != want {
                        fail!("model_agreement", "pairwise_eq", "step {step}: entries {i},{j}: == is {} but models say {}", !want, want);
                    }
                }
            }
        }
        ctx.nontrivial = alias_then_mutation && on_boundary;
        if alias_then_mutation {
            ctx.class("alias_then_mutation");
        }
        if on_boundary {
            ctx.class("position_on_chunk_boundary");
        }
        if empty_chunk {
            ctx.class("empty_chunk");
        }
        if nops > 20 {
            ctx.class("more_than_20_ops");
        }
        if ctx.want_desc {
            ctx.desc = Some(json!({"ops": ops_desc}));
        }
        Ok(())
    }
}
