//! TCB bench: the harness owns two TCP endpoints (real `Tcb`s), the two multisets of in-flight
//! segments, the clock and both applications. Used by C01, C03, C12 (lock-step), C17.

use crate::engine::*;
use crate::{ensure, fail};
use elvis_core::protocols::ipv4::Ipv4Address;
use elvis_core::protocols::tcp::verif::{
    segment_arrives_closed, segment_arrives_listen, AdvanceTimeResult, CloseResult, Control, ListenResult, Segment, SegmentArrivesResult, State, Tcb, VerifSnapshot,
};
use elvis_core::protocols::tcp::TcpHeader;
use elvis_core::protocols::{Endpoint, Endpoints};
use elvis_core::Message;
use std::time::Duration;

pub const PORTS: [u16; 2] = [1000, 2000];

pub fn addr(side: usize) -> Ipv4Address {
    Ipv4Address::new([10, 0, 0, 1 + side as u8])
}

pub fn pat(i: usize, salt: u8) -> u8 {
    ((i as u32).wrapping_mul(2654435761) >> 11) as u8 ^ salt ^ ((i >> 3) as u8)
}

#[derive(Debug, Clone, PartialEq)]
pub enum Op {
    Write { side: usize, n: usize },
    Read { side: usize },
    Pump { side: usize },
    Deliver { dir: usize, i: usize },
    Drop { dir: usize, i: usize },
    Dup { dir: usize, i: usize },
    Tick { side: usize, ms: u64 },
    Close { side: usize },
    /// an old duplicate SYN of an earlier incarnation of side 0, `back` sequence numbers before its ISS
    OldSyn { back: u32 },
    /// crafted segment delivered directly to `to` (attacker on the peer's address)
    Inject { to: usize, flags: u8, seq: u32, ack: u32, wnd: u16, len: usize },
}

pub struct Side {
    pub tcb: Option<Tcb>,
    pub active: bool,
    pub listening: bool,
    pub done: bool,
    pub iss: u32,
    pub base_iss: u32,
    pub incarnations: u32,
    pub written: usize,
    pub read: usize,
    pub salt: u8,
    pub close_accepted: bool,
    pub ever_established: bool,
    pub fin_seen: bool,
    pub last_snap: Option<VerifSnapshot>,
    pub released_by: Option<&'static str>,
    pub read_tainted: bool,
}

#[derive(Default, Clone)]
pub struct Stats {
    pub data_dropped: bool,
    pub data_duplicated: bool,
    pub data_overtaken: bool,
    pub ctl_fault: bool, // fault hit a SYN / FIN / pure ACK segment
    pub wrapped: bool,
    pub data_in_flight_at_close: bool,
    pub closes: u32,
    pub excluded_close_unsent: u64,
    pub injected: u32,
    pub injected_near_edge: u32,
    pub injected_must_reject: u32,
    pub injected_must_reject_but_queue_nonempty: u32,
    pub window_updates_checked: u32,
    pub rst_emitted_in_fair: bool,
    pub fair_rounds_used: u32,
    pub fair_rounds_bound: u32,
    /// a CLOSED endpoint answered a segment without ACK: its RST carries the absolute SEQ=0
    pub absolute_seq_reset: bool,
    /// close() was accepted while written text was not segmentised yet (open known finding)
    pub closed_with_unsent: bool,
    /// states in which a crafted segment was delivered
    pub injected_in: std::collections::BTreeSet<&'static str>,
    /// states in which close() was called (whatever it answered)
    pub close_called_in: std::collections::BTreeSet<&'static str>,
    pub checksums_verified: u64,
}

pub struct World {
    pub sides: [Side; 2],
    /// wire[d]: segments travelling from side d to side 1-d
    pub wire: [Vec<Segment>; 2],
    /// delivered-order bookkeeping for "overtaken": sequence of data seq numbers put on the wire
    pub mtu: u16,
    pub trace: Vec<String>,
    pub record_trace: bool,
    pub stats: Stats,
    pub check_transitions: bool,
    pub in_fair_phase: bool,
    pub step: usize,
}

fn flags_str(c: Control) -> String {
    let mut s = String::new();
    for (b, n) in [(c.syn(), 'S'), (c.ack(), 'A'), (c.fin(), 'F'), (c.rst(), 'R'), (c.psh(), 'P'), (c.urg(), 'U')] {
        if b {
            s.push(n);
        }
    }
    s
}

pub fn is_sync(s: State) -> bool {
    !matches!(s, State::SynSent | State::SynReceived)
}

fn text_hash(m: &Message) -> u64 {
    m.iter().fold(0xcbf29ce484222325u64, |a, b| (a ^ b as u64).wrapping_mul(0x100000001b3))
}

impl World {
    pub fn new(mtu: u16, iss: [u32; 2], simultaneous: bool, salts: [u8; 2]) -> Result<World, Failure> {
        let mk = |i: usize, active: bool| Side {
            tcb: None,
            active,
            listening: !active,
            done: false,
            iss: iss[i],
            base_iss: iss[i],
            incarnations: 0,
            written: 0,
            read: 0,
            salt: salts[i],
            close_accepted: false,
            ever_established: false,
            fin_seen: false,
            last_snap: None,
            released_by: None,
            read_tainted: false,
        };
        let mut w = World {
            sides: [mk(0, true), mk(1, simultaneous)],
            wire: [vec![], vec![]],
            mtu,
            trace: vec![],
            record_trace: false,
            stats: Stats::default(),
            check_transitions: true,
            in_fair_phase: false,
            step: 0,
        };
        for s in 0..2 {
            if w.sides[s].active {
                let id = w.endpoints(s);
                let iss = w.sides[s].iss;
                let tcb = guard(|| Tcb::open(id, iss, mtu))?;
                w.sides[s].tcb = Some(tcb);
                w.sides[s].incarnations = 1;
            }
        }
        Ok(w)
    }

    pub fn endpoints(&self, s: usize) -> Endpoints {
        Endpoints::new(Endpoint::new(addr(s), PORTS[s]), Endpoint::new(addr(1 - s), PORTS[1 - s]))
    }

    pub fn state(&self, s: usize) -> Option<State> {
        self.sides[s].tcb.as_ref().map(|t| t.status())
    }

    pub fn snap(&self, s: usize) -> Option<VerifSnapshot> {
        self.sides[s].tcb.as_ref().map(|t| t.verif_snapshot())
    }

    fn ev(&mut self, s: String) {
        if self.record_trace {
            self.trace.push(s);
        }
    }

    /// normalised rendering of a segment emitted by side `from`
    fn seg_str(&self, from: usize, seg: &Segment, closed_reply: bool) -> String {
        let h = &seg.header;
        let own = self.sides[from].iss;
        let peer = self.sides[1 - from].iss;
        let seq = if closed_reply && h.ctl.ack() { format!("abs{}", h.seq) } else { format!("{}", h.seq.wrapping_sub(own)) };
        let ack = if h.ctl.ack() { format!("{}", h.ack.wrapping_sub(peer)) } else { format!("raw{}", h.ack) };
        format!("{}>{} [{}] seq+{} ack+{} wnd {} len {} h{:x}", from, 1 - from, flags_str(h.ctl), seq, ack, h.wnd, seg.text.len(), text_hash(&seg.text) & 0xffff)
    }

    pub fn can_write(&self, s: usize) -> bool {
        match self.state(s) {
            Some(State::Established) => true,
            Some(State::SynSent) | Some(State::SynReceived) => self.sides[s].active,
            _ => false,
        }
    }

    /// The TCB is deleted: whatever the application has not read yet is read now (it cannot read
    /// later than that), then the endpoint becomes CLOSED or LISTEN.
    fn release(&mut self, s: usize, how: &'static str) -> Result<(), Failure> {
        self.read(s)?;
        self.release_inner(s, how);
        Ok(())
    }

    fn release_inner(&mut self, s: usize, how: &'static str) {
        let side = &mut self.sides[s];
        side.last_snap = side.tcb.as_ref().map(|t| t.verif_snapshot());
        side.tcb = None;
        if side.ever_established || side.active {
            side.done = true;
            side.listening = false;
        } else {
            // a passive endpoint whose half-open connection was reset is LISTEN again
            side.listening = true;
        }
        side.released_by = Some(how);
        self.ev(format!("side {s} released ({how})"));
    }

    fn after_call(&mut self, s: usize, before: Option<VerifSnapshot>, call: &'static str, processed_hint: Option<usize>) -> Result<(), Failure> {
        let after = self.snap(s);
        if let Some(a) = &after {
            if a.state == State::Established {
                self.sides[s].ever_established = true;
            }
            if matches!(a.state, State::CloseWait | State::Closing | State::LastAck | State::TimeWait) {
                self.sides[s].fin_seen = true;
            }
        }
        if !self.check_transitions {
            return Ok(());
        }
        if let (Some(b), Some(a)) = (&before, &after) {
            if b.state != a.state {
                let step = self.step;
                match call {
                    "close" => {
                        let ok = matches!((b.state, a.state), (State::Established, State::FinWait1) | (State::SynReceived, State::FinWait1) | (State::CloseWait, State::LastAck));
                        ensure!(ok, "state_diagram", "close_edge", "step {step}: close() moved side {s} from {:?} to {:?}, not a CLOSE edge of RFC 9293 Figure 5", b.state, a.state);
                    }
                    "segment_arrives" => {
                        let processed = processed_hint.unwrap_or(1).max(1);
                        ensure!(reachable(b.state, a.state, 2 * processed), "state_diagram", "receive_edge", "step {step}: segment_arrives moved side {s} from {:?} to {:?} while processing {} segment(s); no such path of receive edges in RFC 9293 Figure 5", b.state, a.state, processed);
                    }
                    _ => {
                        fail!("state_diagram", "spurious_transition", "step {step}: {call} moved side {s} from {:?} to {:?}", b.state, a.state);
                    }
                }
                self.ev(format!("side {s}: {:?} -> {:?}", b.state, a.state));
            }
        }
        Ok(())
    }

    /// synchronisation invariant between the two endpoints of the same connection
    pub fn check_sync(&self) -> Result<(), Failure> {
        for s in 0..2 {
            let (Some(me), Some(peer)) = (self.snap(s), self.snap(1 - s).or(self.sides[1 - s].last_snap)) else { continue };
            if !is_sync(me.state) || !is_sync(peer.state) {
                continue;
            }
            if self.sides[s].read_tainted || self.sides[1 - s].read_tainted {
                continue;
            }
            // only when both talk about the same incarnation
            if peer.iss != self.sides[1 - s].iss {
                continue;
            }
            ensure!(me.irs == peer.iss, "synchronisation", "irs", "step {}: side {s} is {:?} with IRS {} but the peer's ISS is {}", self.step, me.state, me.irs, peer.iss);
            let lo = me.irs.wrapping_add(1);
            let d = me.rcv_nxt.wrapping_sub(lo);
            let span = peer.snd_nxt.wrapping_sub(lo);
            ensure!(d <= span && span < (1 << 31), "synchronisation", "rcv_nxt_beyond_peer_snd_nxt", "step {}: side {s} RCV.NXT = IRS+1+{} but the peer has only sent up to ISS+1+{}", self.step, d, span);
        }
        Ok(())
    }

    pub fn apply(&mut self, op: &Op) -> Result<(), Failure> {
        self.step += 1;
        match *op {
            Op::Write { side, n } => {
                if !self.can_write(side) {
                    return Ok(());
                }
                let sd = &mut self.sides[side];
                let start = sd.written;
                let salt = sd.salt;
                let bytes: Vec<u8> = (0..n).map(|i| pat(start + i, salt)).collect();
                let tcb = sd.tcb.as_mut().unwrap();
                guard(|| tcb.send(Message::new(bytes)))?;
                sd.written += n;
                self.ev(format!("write {side} {n}"));
            }
            Op::Read { side } => self.read(side)?,
            Op::Pump { side } => {
                self.pump(side)?;
            }
            Op::Deliver { dir, i } => {
                if i >= self.wire[dir].len() {
                    return Ok(());
                }
                let seg = self.wire[dir].remove(i);
                if i > 0 && !seg.text.is_empty() {
                    self.stats.data_overtaken = true;
                }
                if i > 0 && seg.text.is_empty() {
                    self.stats.ctl_fault = true;
                }
                self.feed(1 - dir, seg, false)?;
            }
            Op::Drop { dir, i } => {
                if i >= self.wire[dir].len() {
                    return Ok(());
                }
                let seg = self.wire[dir].remove(i);
                if !seg.text.is_empty() {
                    self.stats.data_dropped = true;
                } else {
                    self.stats.ctl_fault = true;
                }
                self.ev(format!("drop {dir} #{i}"));
            }
            Op::Dup { dir, i } => {
                if i >= self.wire[dir].len() {
                    return Ok(());
                }
                let seg = self.wire[dir][i].clone();
                if !seg.text.is_empty() {
                    self.stats.data_duplicated = true;
                } else {
                    self.stats.ctl_fault = true;
                }
                self.wire[dir].push(seg);
                self.ev(format!("dup {dir} #{i}"));
            }
            Op::Tick { side, ms } => {
                let before = self.snap(side);
                if let Some(tcb) = self.sides[side].tcb.as_mut() {
                    let r = guard(|| tcb.advance_time(Duration::from_millis(ms)))?;
                    self.ev(format!("tick {side} {ms}ms -> {r:?}"));
                    if r == AdvanceTimeResult::CloseConnection {
                        let st = before.map(|b| b.state);
                        ensure!(st == Some(State::TimeWait), "state_diagram", "timeout_release_outside_time_wait", "step {}: advance_time released side {side} in state {:?}", self.step, st);
                        self.release(side, "time-wait expiry")?;
                    } else {
                        self.after_call(side, before, "advance_time", None)?;
                    }
                }
            }
            Op::Close { side } => {
                // the passive application has no handle on a connection that is not established yet
                if !(self.sides[side].active || self.sides[side].ever_established) {
                    return Ok(());
                }
                let before = self.snap(side);
                if let Some(tcb) = self.sides[side].tcb.as_mut() {
                    let r = guard(|| tcb.close())?;
                    self.ev(format!("close {side} -> {r:?}"));
                    if let Some(b) = &before {
                        self.stats.close_called_in.insert(match b.state {
                            State::SynSent => "close_in_SYN_SENT",
                            State::SynReceived => "close_in_SYN_RECEIVED",
                            State::Established => "close_in_ESTABLISHED",
                            State::FinWait1 => "close_in_FIN_WAIT_1",
                            State::FinWait2 => "close_in_FIN_WAIT_2",
                            State::CloseWait => "close_in_CLOSE_WAIT",
                            State::Closing => "close_in_CLOSING",
                            State::LastAck => "close_in_LAST_ACK",
                            State::TimeWait => "close_in_TIME_WAIT",
                            #[allow(unreachable_patterns)]
                            _ => "close_in_other",
                        });
                    }
                    if r == CloseResult::Ok {
                        if before.map(|b| b.unsent_text > 0).unwrap_or(false) {
                            self.stats.closed_with_unsent = true;
                        }
                        self.sides[side].close_accepted = true;
                        self.stats.closes += 1;
                        if before.map(|b| b.retransmit_bytes > 0).unwrap_or(false) || self.wire[side].iter().any(|s| !s.text.is_empty()) {
                            self.stats.data_in_flight_at_close = true;
                        }
                    }
                    self.after_call(side, before, "close", None)?;
                }
            }
            Op::OldSyn { back } => {
                let seq = self.sides[0].iss.wrapping_sub(back);
                let h = TcpHeader { src_port: PORTS[0], dst_port: PORTS[1], seq, ack: 0, data_offset: 5, ctl: Control::new(false, false, false, false, true, false), wnd: 65535, urg: 0, checksum: 0 };
                self.wire[0].push(Segment::new(h, Message::default()));
                self.ev(format!("old duplicate SYN with seq ISS-{back} put on the wire"));
            }
            Op::Inject { to, flags, seq, ack, wnd, len } => {
                let from = 1 - to;
                let h = TcpHeader { src_port: PORTS[from], dst_port: PORTS[to], seq, ack, data_offset: 5, ctl: Control::from(flags), wnd, urg: 0, checksum: 0 };
                let bytes: Vec<u8> = (0..len).map(|i| 0xa5 ^ i as u8).collect();
                self.feed(to, Segment::new(h, Message::new(bytes)), true)?;
            }
        }
        self.check_sync()?;
        Ok(())
    }

    pub fn read(&mut self, side: usize) -> Result<(), Failure> {
        let step = self.step;
        let peer_written = self.sides[1 - side].written;
        let peer_salt = self.sides[1 - side].salt;
        let tainted = self.sides[side].read_tainted;
        let sd = &mut self.sides[side];
        let Some(tcb) = sd.tcb.as_mut() else { return Ok(()) };
        let m = guard(|| tcb.receive())?;
        let n = m.len();
        if n == 0 {
            return Ok(());
        }
        if !tainted {
            ensure!(sd.read + n <= peer_written, "stream_prefix", "more_than_written", "step {step}: side {side} read {} bytes in total but the peer has written only {}", sd.read + n, peer_written);
            for (i, b) in m.iter().enumerate() {
                let want = pat(sd.read + i, peer_salt);
                ensure!(b == want, "stream_prefix", "byte_mismatch", "step {step}: side {side}: byte {} of the stream is {:#04x}, the peer wrote {:#04x} (read so far {}, this read {} bytes)", sd.read + i, b, want, sd.read, n);
            }
        }
        sd.read += n;
        self.ev(format!("read {side} {n}"));
        Ok(())
    }

    pub fn pump(&mut self, side: usize) -> Result<usize, Failure> {
        let before = self.snap(side);
        let step = self.step;
        let Some(tcb) = self.sides[side].tcb.as_mut() else { return Ok(0) };
        let segs = guard(|| tcb.segments())?;
        let n = segs.len();
        let b = before.unwrap();
        for seg in segs {
            // a reset emitted after forged segments were delivered is (or may be) the mandated answer to one of them,
            // e.g. to an unacceptable ACK in SYN-SENT; it legitimately destroys the peer's half of the connection, so
            // the stream and synchronisation oracles between the two real endpoints end here
            if seg.header.ctl.rst() && self.stats.injected > 0 {
                self.sides[0].read_tainted = true;
                self.sides[1].read_tainted = true;
            }
            // send-window oracle: new data never beyond SND.UNA + SND.WND of the snapshot before the call
            if !seg.text.is_empty() {
                let rel_end = seg.header.seq.wrapping_add(seg.text.len() as u32).wrapping_sub(b.snd_una);
                let is_new = seg.header.seq.wrapping_sub(b.snd_nxt) < (1 << 31); // starts at or after the old SND.NXT
                if is_new {
                    let syn_unacked = b.snd_una == b.iss;
                    let limit = b.snd_wnd as u32 + syn_unacked as u32;
                    ensure!(rel_end <= limit, "send_window", "beyond_right_edge", "step {step}: side {side} sent new data ending at SND.UNA+{rel_end} but the peer's window is {} (state {:?})", b.snd_wnd, b.state);
                }
                let mss = self.mtu as usize;
                ensure!(seg.text.len() + 40 <= mss, "segment_size", "exceeds_mtu", "step {step}: side {side} emitted a segment with {} text bytes on MTU {}", seg.text.len(), self.mtu);
            }
            if seg.header.ctl.rst() && self.in_fair_phase {
                self.stats.rst_emitted_in_fair = true;
            }
            // in the checksum build every segment a TCB emits must verify under RFC 1071 with its pseudo header (C18)
            if crate::codecs::CHECKSUM_BUILD {
                let hb = guard(|| seg.header.serialize())?;
                let text = seg.text.to_vec();
                let ph = crate::codecs::pseudo_header(u32::from_be_bytes(addr(side).to_bytes()), u32::from_be_bytes(addr(1 - side).to_bytes()), 6, (hb.len() + text.len()) as u16);
                ensure!(crate::codecs::rfc1071_verifies(&[&ph, &hb, &text]), "emitted_checksum_verifies", "tcp_checksum_of_tcb_segment", "step {step}: side {side} emitted {} whose checksum field {:#06x} does not verify against the pseudo header", self.seg_str(side, &seg, false), seg.header.checksum);
                self.stats.checksums_verified += 1;
            }
            let s = self.seg_str(side, &seg, false);
            self.ev(format!("emit {s}"));
            self.wire[side].push(seg);
        }
        self.after_call(side, before, "segments", None)?;
        Ok(n)
    }

    /// deliver a segment to side `to`
    pub fn feed(&mut self, to: usize, seg: Segment, crafted: bool) -> Result<(), Failure> {
        let from = 1 - to;
        let step = self.step;
        let s = self.seg_str(from, &seg, false);
        self.ev(format!("{} {s}", if crafted { "inject" } else { "deliver" }));
        let before = self.snap(to);
        if self.sides[to].tcb.is_some() {
            let b = before.unwrap();
            // classification of crafted segments
            let mut must_reject = false;
            if crafted {
                self.stats.injected += 1;
                self.stats.injected_in.insert(match b.state {
                    State::SynSent => "forged_in_SYN_SENT",
                    State::SynReceived => "forged_in_SYN_RECEIVED",
                    State::Established => "forged_in_ESTABLISHED",
                    State::FinWait1 => "forged_in_FIN_WAIT_1",
                    State::FinWait2 => "forged_in_FIN_WAIT_2",
                    State::CloseWait => "forged_in_CLOSE_WAIT",
                    State::Closing => "forged_in_CLOSING",
                    State::LastAck => "forged_in_LAST_ACK",
                    State::TimeWait => "forged_in_TIME_WAIT",
                    #[allow(unreachable_patterns)]
                    _ => "forged_in_other",
                });
                let seg_len = seg.text.len() as u32 + seg.header.ctl.syn() as u32 + seg.header.ctl.fin() as u32;
                if is_sync(b.state) {
                    let left = b.rcv_nxt.wrapping_sub(1);
                    let d = seg.header.seq.wrapping_sub(left);
                    let d_end = seg.header.seq.wrapping_add(seg_len.saturating_sub(1)).wrapping_sub(left);
                    let w = b.rcv_wnd as u32 + 1;
                    let after = d >= w && d < (1 << 31) && d_end >= w && d_end < (1 << 31);
                    let before_w = d >= (1 << 31) && d_end >= (1 << 31);
                    must_reject = after || before_w;
                    let near = |x: u32| x.wrapping_add(2) <= 4 || x.wrapping_sub(b.rcv_wnd as u32).wrapping_add(2) <= 4;
                    let ad = seg.header.ack.wrapping_sub(b.snd_una);
                    let an = seg.header.ack.wrapping_sub(b.snd_nxt);
                    if near(seg.header.seq.wrapping_sub(b.rcv_nxt)) || ad.wrapping_add(2) <= 4 || an.wrapping_add(2) <= 4 {
                        self.stats.injected_near_edge += 1;
                    }
                } else if b.state == State::SynSent {
                    must_reject = !seg.header.ctl.syn() && !seg.header.ctl.rst();
                }
                // segments queued earlier may be processed by this call as well; the state oracle is
                // only meaningful when the forged segment is the only one that can be processed
                if must_reject && b.unprocessed_segments > 0 {
                    must_reject = false;
                    self.stats.injected_must_reject_but_queue_nonempty += 1;
                } else if must_reject {
                    self.stats.injected_must_reject += 1;
                } else {
                    // an acceptable forged segment may legitimately alter the stream in both directions
                    self.sides[to].read_tainted = true;
                    self.sides[from].read_tainted = true;
                }
            }
            // window bookkeeping: a segment that is certainly the newest acknowledgment (processed at
            // once, in sequence, acknowledging SND.UNA or more) must leave SND.WND equal to the window it advertises
            let certain_update = matches!(b.state, State::Established | State::FinWait1 | State::FinWait2 | State::CloseWait)
                && b.unprocessed_segments == 0
                && seg.header.ctl.ack()
                && !seg.header.ctl.syn()
                && !seg.header.ctl.rst()
                && seg.header.seq == b.rcv_nxt
                && {
                    // RFC 9293 3.10.7.4: the window is updated when SND.UNA =< SEG.ACK =< SND.NXT
                    let adv = seg.header.ack.wrapping_sub(b.snd_una);
                    adv <= b.snd_nxt.wrapping_sub(b.snd_una)
                };
            let advertised = seg.header.wnd;
            let tcb = self.sides[to].tcb.as_mut().unwrap();
            let r = guard(|| tcb.segment_arrives(seg))?;
            if certain_update && r != SegmentArrivesResult::Close {
                let a = self.snap(to).unwrap();
                if advertised != b.snd_wnd {
                    self.stats.window_updates_checked += 1;
                }
                ensure!(a.snd_wnd == advertised, "send_window", "window_update_ignored", "step {step}: side {to} processed the newest acknowledgment (seq = RCV.NXT, ack advances SND.UNA) advertising window {advertised} but records SND.WND = {} (was {})", a.snd_wnd, b.snd_wnd);
            }
            if r == SegmentArrivesResult::Close {
                if must_reject {
                    fail!("unacceptable_segment_ignored", "released_by_unacceptable_segment", "step {step}: a segment that must be rejected released side {to} (was {:?})", b.state);
                }
                self.release(to, "segment")?;
            } else {
                let a = self.snap(to).unwrap();
                if must_reject {
                    ensure!(a.state == b.state, "unacceptable_segment_ignored", "state_changed", "step {step}: a segment that must be rejected moved side {to} from {:?} to {:?}", b.state, a.state);
                }
                let processed = (b.unprocessed_segments + 1).saturating_sub(a.unprocessed_segments);
                self.after_call(to, before, "segment_arrives", Some(processed))?;
            }
        } else if self.sides[to].listening && !self.sides[to].done {
            if crafted {
                // a forged SYN is acceptable to a listening endpoint
                self.stats.injected += 1;
                self.stats.injected_in.insert("forged_in_LISTEN");
                self.sides[to].read_tainted = true;
                self.sides[from].read_tainted = true;
            }
            let side = &self.sides[to];
            let iss = side.base_iss.wrapping_add(side.incarnations.wrapping_mul(100_003));
            let mtu = self.mtu;
            let r = guard(|| segment_arrives_listen(seg, addr(to), addr(from), iss, mtu))?;
            match r {
                Some(ListenResult::Tcb(tcb)) => {
                    ensure!(tcb.status() == State::SynReceived, "state_diagram", "listen_edge", "step {step}: LISTEN created a TCB in state {:?}", tcb.status());
                    let side = &mut self.sides[to];
                    side.tcb = Some(tcb);
                    side.iss = iss;
                    side.incarnations += 1;
                    side.listening = false;
                    self.ev(format!("side {to}: LISTEN -> SynReceived"));
                }
                Some(ListenResult::Response(h)) => {
                    let seg = Segment::new(h, Message::default());
                    let s = self.seg_str(to, &seg, true);
                    self.ev(format!("listen-reply {s}"));
                    self.wire[to].push(seg);
                }
                None => {}
            }
        } else {
            if crafted {
                self.stats.injected += 1;
                self.stats.injected_in.insert("forged_in_CLOSED");
            }
            let len = seg.text.len() as u32;
            let r = guard(|| segment_arrives_closed(seg.header, len, addr(to), addr(from)))?;
            if let Some(h) = r {
                ensure!(h.ctl.rst(), "closed_reply", "not_rst", "step {step}: CLOSED endpoint answered with a segment that is not a RST: {h:?}");
                if h.ctl.ack() {
                    self.stats.absolute_seq_reset = true;
                }
                let seg = Segment::new(h, Message::default());
                let s = self.seg_str(to, &seg, true);
                self.ev(format!("closed-reply {s}"));
                self.wire[to].push(seg);
            }
        }
        Ok(())
    }

    /// Fair phase: rounds of {pump both, deliver everything in order, read both, tick both}.
    /// The tick is 5 s (coarse) or 50 ms (fine: timers restart races such as TIME-WAIT ping-pong show).
    /// Returns the number of rounds until quiescence, or None if `max_rounds` did not suffice.
    pub fn fair_phase(&mut self, max_rounds: u32, want_release: bool, tick_ms: u64) -> Result<Option<u32>, Failure> {
        self.in_fair_phase = true;
        let mut quiet = 0;
        for round in 1..=max_rounds {
            let mut emitted = 0;
            // several pump/deliver passes per round: one pass = one flight
            for _pass in 0..6 {
                emitted += self.pump(0)?;
                emitted += self.pump(1)?;
                let mut moved = false;
                for dir in 0..2 {
                    while !self.wire[dir].is_empty() {
                        let seg = self.wire[dir].remove(0);
                        self.feed(1 - dir, seg, false)?;
                        moved = true;
                    }
                }
                self.read(0)?;
                self.read(1)?;
                self.check_sync()?;
                if !moved {
                    break;
                }
            }
            let done = self.quiescent(want_release);
            if done && emitted == 0 {
                quiet += 1;
                if quiet >= 2 {
                    self.stats.fair_rounds_used = round;
                    return Ok(Some(round));
                }
            } else {
                quiet = 0;
            }
            for s in 0..2 {
                self.step += 1;
                let before = self.snap(s);
                if let Some(tcb) = self.sides[s].tcb.as_mut() {
                    let r = guard(|| tcb.advance_time(Duration::from_millis(tick_ms)))?;
                    if r == AdvanceTimeResult::CloseConnection {
                        let st = before.map(|b| b.state);
                        ensure!(st == Some(State::TimeWait), "state_diagram", "timeout_release_outside_time_wait", "fair phase: advance_time released side {s} in state {:?}", st);
                        self.release(s, "time-wait expiry")?;
                    }
                }
            }
        }
        self.stats.fair_rounds_used = max_rounds;
        Ok(None)
    }

    fn quiescent(&self, want_release: bool) -> bool {
        for s in 0..2 {
            let other = &self.sides[1 - s];
            if !self.sides[s].read_tainted && self.sides[s].read != other.written && (self.sides[s].tcb.is_some()) {
                return false;
            }
            if let Some(sn) = self.snap(s) {
                if sn.retransmit_segments != 0 || sn.unsent_text != 0 || sn.oneshot_segments != 0 {
                    return false;
                }
                if want_release {
                    return false;
                }
            }
        }
        self.wire[0].is_empty() && self.wire[1].is_empty()
    }
}

/// RFC 9293 Figure 5: edges that the arrival of a segment can take
fn receive_edges(s: State) -> &'static [State] {
    use State::*;
    match s {
        SynSent => &[SynReceived, Established],
        SynReceived => &[Established, CloseWait],
        Established => &[CloseWait],
        FinWait1 => &[FinWait2, Closing, TimeWait],
        FinWait2 => &[TimeWait],
        CloseWait => &[],
        Closing => &[TimeWait],
        LastAck => &[],
        TimeWait => &[],
    }
}

fn reachable(from: State, to: State, max_edges: usize) -> bool {
    let mut cur = vec![from];
    for _ in 0..max_edges {
        let mut next = vec![];
        for s in &cur {
            for t in receive_edges(*s) {
                if *t == to {
                    return true;
                }
                next.push(*t);
            }
        }
        if next.is_empty() {
            break;
        }
        cur = next;
    }
    false
}

// ------------------------------------------------------------------------------------------------
// Generators

pub struct GenCfg {
    pub closes: bool,
    pub old_syn: bool,
    pub inject: bool,
    pub max_ops: usize,
    pub byte_budget: usize,
    /// do not issue close() while text is queued but not segmentised (open finding)
    pub exclude_close_with_unsent: bool,
    /// decode exactly as before the generator was extended (replay of older files)
    pub legacy_layout: bool,
}

pub fn gen_iss(e: &mut Entropy) -> u32 {
    match e.weighted(&[7, 1, 1, 1]) {
        0 => e.u32(),
        1 => (e.choose(140001) as u32).wrapping_sub(70000),
        2 => (1u32 << 31).wrapping_add(e.choose(140001) as u32).wrapping_sub(70000),
        _ => near_wrap(e.choose(70000) as u32),
    }
}

/// An ISS up to 70000 below the wrap; one value in eight is one of the four numbers directly below 2^32-1, so that a SYN,
/// a first data byte or a FIN lands exactly on 0xffffffff / 0 often (same entropy consumption as a plain choice).
pub fn near_wrap(k: u32) -> u32 {
    if k % 8 == 7 {
        u32::MAX - 1 - ((k / 8) % 16) / 4
    } else {
        u32::MAX - k
    }
}

pub fn gen_mtu(e: &mut Entropy) -> u16 {
    match e.weighted(&[2, 5, 2, 1]) {
        0 => 100 + e.choose(50) as u16,
        1 => 150 + e.choose(1351) as u16,
        2 => 1500 + e.choose(8000) as u16,
        _ => 65535 - e.choose(1000) as u16,
    }
}

pub fn gen_write_len(e: &mut Entropy) -> usize {
    match e.weighted(&[1, 5, 4, 2, 1]) {
        0 => 0,
        1 => 1 + e.choose(50),
        2 => 51 + e.choose(3950),
        3 => 4001 + e.choose(66000),
        _ => 60000 + e.choose(80001),
    }
}

/// decodes the next operation given the current world (indices are resolved against it)
pub fn gen_op(e: &mut Entropy, w: &World, cfg: &GenCfg, bytes_left: &mut usize, stats_excluded: &mut u64) -> Op {
    let weights = [
        6u32,                                // write
        4,                                   // read
        8,                                   // pump
        10,                                  // deliver
        3,                                   // drop
        2,                                   // dup
        5,                                   // tick
        if cfg.closes { 2 } else { 0 },      // close
        if cfg.old_syn { 1 } else { 0 },     // old syn
        if cfg.inject { 5 } else { 0 },      // inject
    ];
    match e.weighted(&weights) {
        0 => {
            let side = e.choose(2);
            let mut n = gen_write_len(e);
            if n > *bytes_left {
                n = *bytes_left;
            }
            if w.can_write(side) {
                *bytes_left -= n;
            }
            Op::Write { side, n }
        }
        1 => Op::Read { side: e.choose(2) },
        2 => Op::Pump { side: e.choose(2) },
        3 => {
            let dir = e.choose(2);
            let dir = if w.wire[dir].is_empty() { 1 - dir } else { dir };
            let len = w.wire[dir].len();
            // mostly the oldest, sometimes any
            let i = if len == 0 || e.chance(3, 5) { 0 } else { e.choose(len) };
            Op::Deliver { dir, i }
        }
        4 => {
            let dir = e.choose(2);
            let dir = if w.wire[dir].is_empty() { 1 - dir } else { dir };
            Op::Drop { dir, i: e.choose(w.wire[dir].len().max(1)) }
        }
        5 => {
            let dir = e.choose(2);
            let dir = if w.wire[dir].is_empty() { 1 - dir } else { dir };
            // a reset in flight is the most interesting thing to duplicate: its copy arrives in a later life of the connection
            let i = match w.wire[dir].iter().position(|s| s.header.ctl.rst()) {
                Some(r) if !cfg.legacy_layout && e.chance(2, 3) => r,
                _ => e.choose(w.wire[dir].len().max(1)),
            };
            Op::Dup { dir, i }
        }
        6 => {
            let ms = *e.pick(&[1u64, 5, 50, 99, 100, 101, 150, 500, 1999, 2000, 2001, 5000]);
            Op::Tick { side: e.choose(2), ms }
        }
        7 => {
            let side = e.choose(2);
            if cfg.exclude_close_with_unsent {
                if let Some(sn) = w.snap(side) {
                    if sn.unsent_text > 0 && matches!(sn.state, State::Established | State::SynReceived | State::CloseWait) {
                        *stats_excluded += 1;
                        return Op::Pump { side };
                    }
                }
            }
            Op::Close { side }
        }
        8 => Op::OldSyn {
            // mostly far back, but also immediately before the real ISS (numbers that land on the window's left edge later)
            back: match if cfg.legacy_layout { 2 } else { e.weighted(&[2, 1, 3]) } {
                0 => 1,
                1 => 2 + e.choose(3) as u32,
                _ => 1 + e.choose(100_000) as u32,
            },
        },
        _ => {
            let to = e.choose(2);
            gen_inject(e, w, to)
        }
    }
}

pub fn gen_inject(e: &mut Entropy, w: &World, to: usize) -> Op {
    if e.chance(1, 5) {
        // a forged window update that is certainly the newest acknowledgment
        if let Some(sn) = w.snap(to) {
            let in_flight = sn.snd_nxt.wrapping_sub(sn.snd_una);
            let ack = if in_flight == 0 || e.chance(1, 3) { sn.snd_una } else { sn.snd_una.wrapping_add(1 + e.choose(in_flight as usize) as u32) };
            let wnd = match e.weighted(&[2, 2, 2, 1]) {
                0 => 0,
                1 => e.choose(300) as u16,
                2 => e.u16(),
                _ => 65535,
            };
            return Op::Inject { to, flags: 0x10, seq: sn.rcv_nxt, ack, wnd, len: 0 };
        }
    }
    let flags = match e.weighted(&[4, 3, 2, 1, 1, 1, 4]) {
        0 => 0x10,       // ACK
        1 => 0x18,       // PSH ACK
        2 => 0x11,       // FIN ACK
        3 => 0x02,       // SYN
        4 => 0x12,       // SYN ACK
        5 => 0x04 | (e.choose(2) as u8) << 4, // RST / RST ACK
        _ => e.choose(64) as u8,
    };
    let sn = w.snap(to);
    let (rcv_nxt, rcv_wnd, una, nxt) = sn.map(|s| (s.rcv_nxt, s.rcv_wnd as u32, s.snd_una, s.snd_nxt)).unwrap_or((e.u32(), 65535, e.u32(), e.u32()));
    let seq = match e.weighted(&[5, 3, 3, 2, 2]) {
        0 => rcv_nxt.wrapping_add(e.choose(5) as u32).wrapping_sub(2),
        1 => rcv_nxt.wrapping_add(rcv_wnd).wrapping_add(e.choose(3) as u32).wrapping_sub(1),
        2 => rcv_nxt.wrapping_add(e.choose(70000) as u32),
        3 => rcv_nxt.wrapping_add(1 << 31).wrapping_add(e.choose(3) as u32).wrapping_sub(1),
        _ => e.u32(),
    };
    let ack = match e.weighted(&[3, 4, 2, 1, 2]) {
        0 => una.wrapping_sub(1),
        1 => una.wrapping_add(e.choose(3) as u32),
        2 => nxt,
        3 => nxt.wrapping_add(1 + e.choose(3) as u32),
        _ => e.u32(),
    };
    let wnd = match e.weighted(&[3, 2, 2, 2]) {
        0 => 65535,
        1 => 0,
        2 => e.choose(200) as u16,
        _ => e.u16(),
    };
    let mss = (w.mtu as usize).saturating_sub(50).max(1);
    let len = match e.weighted(&[4, 3, 2, 1]) {
        0 => 0,
        1 => 1 + e.choose(20),
        2 => e.choose(mss + 1),
        _ => mss,
    };
    Op::Inject { to, flags, seq, ack, wnd, len }
}

/// A legitimate prelude that drives the connection to a chosen state before the generated operations start.
#[derive(Debug, Clone)]
pub struct PreludePlan {
    /// 0 none, 1 ESTABLISHED, 2 FIN-WAIT-1, 3 FIN-WAIT-2 / CLOSE-WAIT, 4 CLOSING, 5 LAST-ACK, 6 TIME-WAIT
    pub target: usize,
    pub closer: usize,
    pub write: [usize; 2],
}

impl PreludePlan {
    pub fn decode(e: &mut Entropy, weights: &[u32; 7]) -> PreludePlan {
        let target = e.weighted(weights);
        let closer = e.choose(2);
        let write = [if e.bool() { 1 + e.choose(3000) } else { 0 }, if e.bool() { 1 + e.choose(3000) } else { 0 }];
        PreludePlan { target, closer, write }
    }
}

pub fn run_prelude(w: &mut World, plan: &PreludePlan, ops: &mut Vec<Op>) -> Result<(), Failure> {
    macro_rules! go {
        ($op:expr) => {{
            let op = $op;
            ops.push(op.clone());
            w.apply(&op)?;
        }};
    }
    macro_rules! settle {
        ($passes:expr) => {
            for _ in 0..$passes {
                go!(Op::Pump { side: 0 });
                go!(Op::Pump { side: 1 });
                for dir in 0..2 {
                    let mut n = 0;
                    while !w.wire[dir].is_empty() && n < 64 {
                        go!(Op::Deliver { dir, i: 0 });
                        n += 1;
                    }
                }
            }
        };
    }
    let (target, closer) = (plan.target, plan.closer);
    if target >= 1 {
        settle!(3); // handshake
        for side in 0..2 {
            if plan.write[side] > 0 {
                go!(Op::Write { side, n: plan.write[side] });
            }
        }
        settle!(3);
    }
    match target {
        2 => {
            // FIN-WAIT-1: the FIN is on the wire
            go!(Op::Close { side: closer });
            go!(Op::Pump { side: closer });
        }
        3 => {
            // FIN-WAIT-2 / CLOSE-WAIT
            go!(Op::Close { side: closer });
            settle!(2);
        }
        4 => {
            // CLOSING on both sides: the FINs cross, the ACKs for them are not sent yet
            go!(Op::Close { side: 0 });
            go!(Op::Close { side: 1 });
            go!(Op::Pump { side: 0 });
            go!(Op::Pump { side: 1 });
            let n = [w.wire[0].len(), w.wire[1].len()];
            for dir in 0..2 {
                for _ in 0..n[dir] {
                    go!(Op::Deliver { dir, i: 0 });
                }
            }
        }
        5 | 6 => {
            // LAST-ACK (and FIN-WAIT-2 on the other side), then TIME-WAIT
            go!(Op::Close { side: closer });
            settle!(2);
            go!(Op::Read { side: 1 - closer });
            go!(Op::Close { side: 1 - closer });
            go!(Op::Pump { side: 1 - closer });
            if target == 6 {
                let n = w.wire[1 - closer].len();
                for _ in 0..n {
                    go!(Op::Deliver { dir: 1 - closer, i: 0 });
                }
            }
        }
        _ => {}
    }
    Ok(())
}
