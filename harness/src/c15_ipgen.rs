//! C15 (a): address allocation never hands the same address to two holders.
//! Stateful model-based check of IpGenerator against an interval-set model.

use crate::engine::*;
use crate::{ensure, fail};
use elvis::ip_generator::{IpGenerator, IpRange};
use elvis_core::protocols::arp::subnetting::{Ipv4Mask, Ipv4Net};
use elvis_core::protocols::ipv4::Ipv4Address;
use serde_json::json;

fn a(x: u32) -> Ipv4Address {
    Ipv4Address::from(x)
}
fn fmt_ip(x: u32) -> String {
    let b = x.to_be_bytes();
    format!("{}.{}.{}.{}", b[0], b[1], b[2], b[3])
}
fn mask_bits(m: u32) -> u32 {
    if m == 0 {
        0
    } else {
        u32::MAX << (32 - m)
    }
}

/// set of disjoint inclusive intervals, kept sorted and merged
#[derive(Clone, Debug, Default)]
struct IntervalSet(Vec<(u32, u32)>);

impl IntervalSet {
    fn add(&mut self, lo: u32, hi: u32) {
        if lo > hi {
            return;
        }
        self.0.push((lo, hi));
        self.0.sort();
        let mut out: Vec<(u32, u32)> = vec![];
        for (l, h) in self.0.drain(..) {
            if let Some(last) = out.last_mut() {
                if (l as u64) <= last.1 as u64 + 1 {
                    last.1 = last.1.max(h);
                    continue;
                }
            }
            out.push((l, h));
        }
        self.0 = out;
    }
    fn remove(&mut self, lo: u32, hi: u32) {
        let mut out = vec![];
        for (l, h) in self.0.drain(..) {
            if h < lo || l > hi {
                out.push((l, h));
                continue;
            }
            if l < lo {
                out.push((l, lo - 1));
            }
            if h > hi {
                out.push((hi + 1, h));
            }
        }
        self.0 = out;
    }
    fn contains_range(&self, lo: u32, hi: u32) -> bool {
        self.0.iter().any(|(l, h)| *l <= lo && hi <= *h)
    }
    fn overlaps(&self, lo: u32, hi: u32) -> bool {
        self.0.iter().any(|(l, h)| *l <= hi && lo <= *h)
    }
    fn is_empty(&self) -> bool {
        self.0.is_empty()
    }
    fn count(&self) -> u64 {
        self.0.iter().map(|(l, h)| (*h as u64 - *l as u64) + 1).sum()
    }
}

pub struct IpGenHistories;

impl Check for IpGenHistories {
    fn id(&self) -> &'static str {
        "C15.ipgen"
    }
    fn rule(&self) -> String {
        "generated: a pool (single range, subnet of any mask via new_sub, new_sub_no_ends, all(), none(); mass on tiny pools and on pools touching 0.0.0.0 / 255.255.255.255) followed by 1..40 operations block_subnet / fetch_ip / fetch_net(mask) / return_ip / return_subnet of held items, return of one address out of a held net, return of an address that is free already; oracle: interval-set model (every fetched address or net lies in the configured pool, is free in the model i.e. not blocked and not overlapping anything held, has the requested mask and is aligned; fetch_ip returns None only when the model has no free address; returned items become free again; new_sub_no_ends(net) drained by fetch_ip yields exactly id+1..=broadcast-1). non-trivial: a fetch after a return into a fragmented free set, or a pool touching either end of the address space, or exhaustion reached. distinct: hash of decoded history".into()
    }
    fn assumptions(&self) -> Vec<String> {
        vec![
            "returns concern held items (whole or one address of a held net) or addresses that are free already; a whole item is not returned while a part it gave back earlier is held by somebody else; block_subnet is never applied to a range overlapping a held item (after such a block the statement and the implementation's 'return makes available' rule would conflict)".into(),
            "completeness (None only on exhaustion) is required for single addresses only; fetch_net may fail on a fragmented pool".into(),
        ]
    }
    fn max_entropy(&self) -> usize {
        400
    }
    fn run(&self, e: &mut Entropy, ctx: &mut Ctx) -> Result<(), Failure> {
        let mut desc = vec![];
        let mut pool = IntervalSet::default();
        let kind = e.weighted(&[4, 3, 3, 1, 1]);
        // base address: mass on ends of the address space
        let base = match e.weighted(&[3, 2, 2]) {
            0 => e.u32(),
            1 => e.choose(600) as u32,
            _ => u32::MAX - e.choose(600) as u32,
        };
        let mut gen = match kind {
            0 => {
                let len = match e.weighted(&[4, 3, 1]) {
                    0 => e.choose(8) as u32,
                    1 => e.choose(300) as u32,
                    _ => e.choose(100_000) as u32,
                };
                let end = base.saturating_add(len);
                pool.add(base, end);
                desc.push(format!("new({}..={})", fmt_ip(base), fmt_ip(end)));
                IpGenerator::new(IpRange::new(a(base), a(end)))
            }
            1 => {
                let m = 32 - e.weighted(&[3, 3, 3, 3, 2, 2, 2, 1, 1, 1]) as u32 - if e.chance(1, 10) { e.choose(23) as u32 } else { 0 };
                let net = Ipv4Net::new(a(base), Ipv4Mask::from_bitcount(m));
                pool.add(net.id().to_u32(), net.broadcast().to_u32());
                desc.push(format!("new_sub({}/{m})", fmt_ip(base)));
                IpGenerator::new_sub(net)
            }
            2 => {
                let m = 32 - e.weighted(&[2, 2, 3, 3, 2, 2, 2, 1, 1, 1]) as u32;
                let net = Ipv4Net::new(a(base), Ipv4Mask::from_bitcount(m));
                let (id, bc) = (net.id().to_u32(), net.broadcast().to_u32());
                if bc - id >= 2 {
                    pool.add(id + 1, bc - 1);
                }
                desc.push(format!("new_sub_no_ends({}/{m})", fmt_ip(base)));
                ctx.class("new_sub_no_ends");
                let g = guard(|| IpGenerator::new_sub_no_ends(net))?;
                // drain completely when small: must yield exactly the host addresses
                if bc - id <= 64 {
                    let mut g2 = g.clone();
                    let mut got = vec![];
                    for _ in 0..70 {
                        match guard(|| g2.fetch_ip())? {
                            Some(x) => got.push(x.to_u32()),
                            None => break,
                        }
                    }
                    got.sort();
                    let want: Vec<u32> = if bc - id >= 2 { ((id + 1)..=(bc - 1)).collect() } else { vec![] };
                    ensure!(got == want, "no_ends_pool", "new_sub_no_ends", "new_sub_no_ends({}/{m}) offers {:?}, expected the host addresses {:?}", fmt_ip(id), got.iter().map(|x| fmt_ip(*x)).collect::<Vec<_>>(), want.iter().map(|x| fmt_ip(*x)).collect::<Vec<_>>());
                }
                g
            }
            3 => {
                pool.add(0, u32::MAX);
                desc.push("all()".into());
                IpGenerator::all()
            }
            _ => {
                desc.push("none()".into());
                IpGenerator::none()
            }
        };
        let touches_end = pool.0.first().map(|x| x.0 == 0).unwrap_or(false) || pool.0.last().map(|x| x.1 == u32::MAX).unwrap_or(false);
        let mut free = pool.clone();
        // (id, masklen, the part of the item that has not been given back yet)
        let mut held: Vec<(u32, u32, IntervalSet)> = vec![];
        let mut held_set = IntervalSet::default();
        let mut odd_returns = false;
        let mut returned_since = false;
        let mut fetch_after_return_fragmented = false;
        let mut exhausted = false;
        let nops = 1 + e.choose(40);
        for step in 0..nops {
            match e.weighted(&[2, 6, 3, 3, 2]) {
                0 => {
                    // block a subnet near the pool, not overlapping a held item
                    let m = 32 - e.choose(9) as u32;
                    let x = if let Some(iv) = (!pool.is_empty()).then(|| pool.0[e.choose(pool.0.len())]) {
                        iv.0.wrapping_add(e.choose(((iv.1 - iv.0) as usize).min(400) + 1) as u32)
                    } else {
                        e.u32()
                    };
                    let id = x & mask_bits(m);
                    let bc = id | !mask_bits(m);
                    if held_set.overlaps(id, bc) {
                        ctx.excluded += 1;
                        continue;
                    }
                    guard(|| gen.block_subnet(Ipv4Net::new(a(x), Ipv4Mask::from_bitcount(m))))?;
                    free.remove(id, bc);
                    // a blocked address is no longer part of what may be handed out
                    pool.remove(id, bc);
                    desc.push(format!("block({}/{m})", fmt_ip(id)));
                }
                1 => {
                    let got = guard(|| gen.fetch_ip())?;
                    match got {
                        Some(x) => {
                            let x = x.to_u32();
                            ensure!(pool.contains_range(x, x), "allocation", "outside_pool", "step {step}: fetch_ip returned {} which is outside the pool / blocked ({:?})", fmt_ip(x), desc);
                            ensure!(!held_set.overlaps(x, x), "allocation", "double_allocation", "step {step}: fetch_ip returned {} which is still held ({:?})", fmt_ip(x), desc);
                            ensure!(free.contains_range(x, x), "allocation", "not_free", "step {step}: fetch_ip returned {} which is not free in the model", fmt_ip(x));
                            free.remove(x, x);
                            held.push((x, 32, IntervalSet(vec![(x, x)])));
                            held_set.add(x, x);
                            if returned_since && free.0.len() >= 2 {
                                fetch_after_return_fragmented = true;
                            }
                            desc.push(format!("fetch_ip->{}", fmt_ip(x)));
                        }
                        None => {
                            ensure!(free.is_empty(), "allocation", "false_exhaustion", "step {step}: fetch_ip returned None but {} addresses are free in the model, e.g. {} ({:?})", free.count(), fmt_ip(free.0[0].0), desc);
                            exhausted = true;
                            desc.push("fetch_ip->None".into());
                        }
                    }
                }
                2 => {
                    let m = 32 - e.weighted(&[1, 3, 3, 2, 2, 1, 1, 1, 1]) as u32;
                    let got = guard(|| gen.fetch_net(Ipv4Mask::from_bitcount(m)))?;
                    match got {
                        Some(n) => {
                            let (id, bc) = (n.id().to_u32(), n.broadcast().to_u32());
                            ensure!(n.mask().count_ones() == m && id & !mask_bits(m) == 0 && bc == id | !mask_bits(m), "allocation", "net_shape", "step {step}: fetch_net(/{m}) returned {:?}", n);
                            ensure!(pool.contains_range(id, bc), "allocation", "outside_pool", "step {step}: fetch_net(/{m}) returned {:?} which is not inside the pool / is blocked ({:?})", n, desc);
                            ensure!(!held_set.overlaps(id, bc), "allocation", "double_allocation", "step {step}: fetch_net(/{m}) returned {:?} overlapping a held item ({:?})", n, desc);
                            ensure!(free.contains_range(id, bc), "allocation", "not_free", "step {step}: fetch_net returned {:?} which is not free in the model", n);
                            free.remove(id, bc);
                            held.push((id, m, IntervalSet(vec![(id, bc)])));
                            held_set.add(id, bc);
                            if returned_since && free.0.len() >= 2 {
                                fetch_after_return_fragmented = true;
                            }
                            desc.push(format!("fetch_net(/{m})->{}", fmt_ip(id)));
                        }
                        None => {
                            if free.is_empty() {
                                exhausted = true;
                            }
                            desc.push(format!("fetch_net(/{m})->None"));
                        }
                    }
                }
                3 | 4 => {
                    // returns: a held item as fetched (mostly), one address out of a held net (partial
                    // return), or an address that is free already (spurious release, as a DHCP server
                    // performs when a client releases an address it never leased)
                    let kind = e.weighted(&[6, 2, 2]);
                    if kind == 2 {
                        if free.is_empty() {
                            continue;
                        }
                        let iv = free.0[e.choose(free.0.len())];
                        let x = iv.0 + e.choose(((iv.1 - iv.0) as usize).min(50) + 1) as u32;
                        guard(|| gen.return_ip(a(x)))?;
                        odd_returns = true;
                        desc.push(format!("return_ip({}) although it is free", fmt_ip(x)));
                        continue;
                    }
                    if held.is_empty() {
                        continue;
                    }
                    let i = e.choose(held.len());
                    if kind == 1 && held[i].1 < 32 && !held[i].2.is_empty() {
                        // give back one address of a held net
                        let iv = held[i].2 .0[e.choose(held[i].2 .0.len())];
                        let x = iv.0 + e.choose(((iv.1 - iv.0) as usize).min(50) + 1) as u32;
                        guard(|| gen.return_ip(a(x)))?;
                        held[i].2.remove(x, x);
                        held_set.remove(x, x);
                        free.add(x, x);
                        returned_since = true;
                        odd_returns = true;
                        desc.push(format!("return_ip({}) out of held {}/{}", fmt_ip(x), fmt_ip(held[i].0), held[i].1));
                        continue;
                    }
                    let (id, m, remaining) = held[i].clone();
                    let bc = id | !mask_bits(m);
                    // parts given back earlier must not be held by somebody else by now
                    let mut given_back = IntervalSet(vec![(id, bc)]);
                    for (l, h) in &remaining.0 {
                        given_back.remove(*l, *h);
                    }
                    // ... nor blocked in the meantime
                    if given_back.0.iter().any(|(l, h)| held_set.overlaps(*l, *h) || !pool.contains_range(*l, *h)) {
                        ctx.excluded += 1;
                        continue;
                    }
                    held.remove(i);
                    if m == 32 && e.bool() {
                        guard(|| gen.return_ip(a(id)))?;
                        desc.push(format!("return_ip({})", fmt_ip(id)));
                    } else {
                        guard(|| gen.return_subnet(Ipv4Net::new(a(id), Ipv4Mask::from_bitcount(m))))?;
                        desc.push(format!("return_subnet({}/{m})", fmt_ip(id)));
                    }
                    for (l, h) in &remaining.0 {
                        held_set.remove(*l, *h);
                    }
                    free.add(id, bc);
                    returned_since = true;
                    // returned items are available again: a fetch of the same size must succeed now
                    if e.chance(1, 3) {
                        let mut probe = gen.clone();
                        let r = guard(|| probe.fetch_net(Ipv4Mask::from_bitcount(m)))?;
                        if r.is_none() {
                            fail!("allocation", "returned_not_available", "step {step}: after returning {}/{m} a fetch_net(/{m}) finds nothing ({:?})", fmt_ip(id), desc);
                        }
                    }
                }
                _ => {}
            }
        }
        ctx.nontrivial = fetch_after_return_fragmented || touches_end || exhausted;
        if fetch_after_return_fragmented {
            ctx.class("fetch_after_return_fragmented");
        }
        if touches_end {
            ctx.class("pool_touches_end_of_space");
        }
        if exhausted {
            ctx.class("exhaustion_reached");
        }
        if odd_returns {
            ctx.class("partial_or_spurious_return");
        }
        if ctx.want_desc {
            ctx.desc = Some(json!({"history": desc}));
        }
        Ok(())
    }
}
