//! C16: routers forward along the route and TTL bounds every packet's life.

use crate::c04_udp::{udp_payload, UdpSend, UdpSendResult, UdpSender};
use crate::engine::*;
use crate::ensure;
use crate::sim::*;
use elvis::applications::ArpRouter;
use elvis_core::ip_table::IpTable;
use elvis_core::machine::{Machine, PciSlot};
use elvis_core::network::NetworkBuilder;
use elvis_core::protocols::arp::subnetting::{Ipv4Mask, Ipv4Net, SubnetInfo};
use elvis_core::protocols::ipv4::{Ipv4Address, Recipient};
use elvis_core::protocols::pci::Pci;
use elvis_core::protocols::{Arp, Endpoint, Ipv4, Udp};
use elvis_core::{run_internet_with_timeout, Network};
use serde_json::json;
use std::sync::{Arc, Mutex};
use std::time::Duration;

#[derive(Debug, Clone)]
struct Router {
    /// subnets joined, in slot order
    nets: Vec<usize>,
    /// routing entries: destination subnet -> (gateway ip as u32 or None for 'deliver directly', slot)
    table: Vec<(usize, Option<u32>, usize)>,
    /// further entries with other prefix lengths: (base, bits, gateway, slot); host routes, aggregates, default routes
    extra: Vec<(u32, u32, Option<u32>, usize)>,
    /// entries that were configured first and then replaced by an entry of `extra` for the same prefix (added before them)
    shadowed: Vec<(u32, u32, Option<u32>, usize)>,
}

fn subnet_base(i: usize) -> u32 {
    u32::from_be_bytes([10, 20 + i as u8, 0, 0])
}
fn host_ip(subnet: usize, k: usize) -> u32 {
    subnet_base(subnet) + 10 + k as u32
}
fn router_ip(subnet: usize, r: usize) -> u32 {
    subnet_base(subnet) + 1 + r as u32
}
fn ip(x: u32) -> Ipv4Address {
    Ipv4Address::from(x)
}

#[derive(Debug, Clone, PartialEq)]
enum Fate {
    Delivered { hops: usize },
    Dropped { frames: usize, why: &'static str },
}

pub struct Routing;

impl Check for Routing {
    fn id(&self) -> &'static str {
        "C16"
    }
    fn rule(&self) -> String {
        "generated: 2..5 subnets (10.(20+i).0.0/24) joined by 1..4 ArpRouters as a line, a star or a ring, 1..2 hosts per subnet (Udp, Ipv4, Arp with subnet information pointing at a router interface, recording application); per-router static tables that are shortest-path correct (/24 entries), then optionally damaged: an entry removed (hole), two neighbouring routers pointing at each other (loop), or a gateway nobody claims; in half of the cases 1..3 further entries of other prefix lengths (/32 host routes, /31 /30 /28 blocks, /16 /12 aggregates, default routes; a /31 together with a /32 inside it; the same prefix configured twice, the later entry counts) towards a router interface or an unclaimed address on any attached network, or 'deliver directly' on the interface that holds the destination (on another interface in 1/16 of the cases only: open known finding), so the route is decided by longest-prefix match; 1..6 tagged UDP datagrams between host pairs; random per-frame delays reorder ARP and data frames; oracle: an independent hop-by-hop walk over the tables gives the expected fate: for a deliverable route exactly one delivery, to the destination host's application only, payload unchanged, and the IPv4 frames carrying the tag traverse exactly the expected network sequence with TTL decreasing by 1 per router hop from the first observed TTL; otherwise no application receives it, the number of frames carrying the tag is at most the first TTL, no two of them have the same TTL on the same network, and the wire is silent at the end. non-trivial: a delivered datagram crossed >= 2 routers, or the route has a hole or a loop. distinct: hash of decoded topology".into()
    }
    fn assumptions(&self) -> Vec<String> {
        vec!["all networks have the same (unlimited) MTU; gateways in the tables are router interfaces on the outgoing network or unclaimed addresses".into()]
    }
    fn max_entropy(&self) -> usize {
        300
    }
    fn run(&self, e: &mut Entropy, ctx: &mut Ctx) -> Result<(), Failure> {
        let shape = e.weighted(&[4, 2, 2]); // line, star, ring
        let ns = match shape {
            1 => 2 + e.choose(4),
            _ => 2 + e.choose(4),
        };
        let mut routers: Vec<Router> = match shape {
            1 => vec![Router { nets: (0..ns).collect(), table: vec![], extra: vec![], shadowed: vec![] }],
            0 => (0..ns - 1).map(|i| Router { nets: vec![i, i + 1], table: vec![], extra: vec![], shadowed: vec![] }).collect(),
            _ => {
                let mut v: Vec<Router> = (0..ns - 1).map(|i| Router { nets: vec![i, i + 1], table: vec![], extra: vec![], shadowed: vec![] }).collect();
                if ns >= 3 {
                    v.push(Router { nets: vec![ns - 1, 0], table: vec![], extra: vec![], shadowed: vec![] });
                }
                v
            }
        };
        if routers.len() > 4 {
            routers.truncate(4);
        }
        let nr = routers.len();
        // shortest-path tables by BFS over the router/subnet graph
        for r in 0..nr {
            for dest in 0..ns {
                if let Some(slot) = routers[r].nets.iter().position(|n| *n == dest) {
                    routers[r].table.push((dest, None, slot));
                    continue;
                }
                // BFS from r over routers sharing subnets
                let mut dist = vec![usize::MAX; nr];
                let mut first: Vec<Option<(usize, usize)>> = vec![None; nr]; // (next router, via subnet)
                let mut queue = std::collections::VecDeque::new();
                dist[r] = 0;
                queue.push_back(r);
                let mut best: Option<(usize, usize)> = None;
                while let Some(x) = queue.pop_front() {
                    if routers[x].nets.contains(&dest) && x != r {
                        best = first[x];
                        break;
                    }
                    for y in 0..nr {
                        if dist[y] != usize::MAX {
                            continue;
                        }
                        if let Some(shared) = routers[x].nets.iter().find(|n| routers[y].nets.contains(n)) {
                            dist[y] = dist[x] + 1;
                            first[y] = if x == r { Some((y, *shared)) } else { first[x] };
                            queue.push_back(y);
                        }
                    }
                }
                if let Some((next, via)) = best {
                    let slot = routers[r].nets.iter().position(|n| *n == via).unwrap();
                    routers[r].table.push((dest, Some(router_ip(via, next)), slot));
                }
            }
        }
        // damage
        let damage = e.weighted(&[4, 2, 3, 1]);
        let mut damaged = "none";
        // (router whose subnets the sender should sit on, destination subnet) of a generated loop
        let mut loop_route: Option<(usize, usize)> = None;
        match damage {
            1 if nr >= 1 => {
                let r = e.choose(nr);
                let idx: Vec<usize> = (0..routers[r].table.len()).filter(|i| routers[r].table[*i].1.is_some() || e.chance(1, 4)).collect();
                if !idx.is_empty() {
                    let i = idx[e.choose(idx.len())];
                    routers[r].table.remove(i);
                    damaged = "hole";
                }
            }
            2 if nr >= 2 => {
                // neighbours a,b sharing subnet s: both send some destination d (not on either of their own subnets, or on them) to each other
                let a = e.choose(nr);
                let cands: Vec<(usize, usize)> = (0..nr).filter(|b| *b != a).filter_map(|b| routers[a].nets.iter().find(|n| routers[b].nets.contains(n)).map(|s| (b, *s))).collect();
                if !cands.is_empty() {
                    let (b, s) = cands[e.choose(cands.len())];
                    let d = e.choose(ns);
                    if !routers[a].nets.contains(&d) || !routers[b].nets.contains(&d) {
                        for (x, y) in [(a, b), (b, a)] {
                            if routers[x].nets.contains(&d) {
                                continue;
                            }
                            let slot = routers[x].nets.iter().position(|n| *n == s).unwrap();
                            routers[x].table.retain(|t| t.0 != d);
                            routers[x].table.push((d, Some(router_ip(s, y)), slot));
                        }
                        damaged = "loop";
                        loop_route = Some((a, d));
                    }
                }
            }
            3 if nr >= 1 => {
                let r = e.choose(nr);
                let idx: Vec<usize> = (0..routers[r].table.len()).filter(|i| routers[r].table[*i].1.is_some()).collect();
                if !idx.is_empty() {
                    let i = idx[e.choose(idx.len())];
                    let via = routers[r].nets[routers[r].table[i].2];
                    routers[r].table[i].1 = Some(subnet_base(via) + 200);
                    damaged = "unclaimed_gateway";
                }
            }
            _ => {}
        }
        // hosts
        let hosts_per: Vec<usize> = (0..ns).map(|_| 1 + e.choose(2)).collect();
        let mut hosts: Vec<(usize, usize)> = vec![]; // (subnet, k)
        for (s, n) in hosts_per.iter().enumerate() {
            for k in 0..*n {
                hosts.push((s, k));
            }
        }
        // default gateway of a host: some router on its subnet
        let gw_of: Vec<Option<u32>> = hosts
            .iter()
            .map(|(s, _)| {
                let rs: Vec<usize> = (0..nr).filter(|r| routers[*r].nets.contains(s)).collect();
                if rs.is_empty() {
                    None
                } else {
                    Some(router_ip(*s, rs[e.choose(rs.len())]))
                }
            })
            .collect();
        // routes of other prefix lengths: host routes and small blocks that override the /24 entry, aggregates and default
        // routes that fill holes; a /31 and a /32 for the same host may point to different places
        let mut extra_kinds: Vec<&'static str> = vec![];
        // 'deliver directly' on an interface whose network does not hold the destination is generated in 1 of 16 cases
        // only: open known finding next_hop_resolved_from_other_interface (the ARP cache is shared by all interfaces)
        let lift_wrong_interface = e.chance(1, 16);
        if e.chance(1, 2) {
            for _ in 0..(1 + e.choose(3)) {
                let r = e.choose(nr);
                let (ds, dk) = hosts[e.choose(hosts.len())];
                let x = host_ip(ds, dk);
                let bits = *e.pick(&[32u32, 32, 31, 30, 28, 16, 12, 0]);
                let slot = e.choose(routers[r].nets.len());
                let via = routers[r].nets[slot];
                let others: Vec<usize> = (0..nr).filter(|y| *y != r && routers[*y].nets.contains(&via)).collect();
                let gw = match e.weighted(&[4, 2, 1]) {
                    0 if !others.is_empty() => Some(router_ip(via, others[e.choose(others.len())])),
                    1 if (via != ds || bits <= 24) && !lift_wrong_interface && !others.is_empty() => {
                        ctx.excluded += 1;
                        Some(router_ip(via, others[e.choose(others.len())]))
                    }
                    1 if (via != ds || bits <= 24) && !lift_wrong_interface => {
                        ctx.excluded += 1;
                        Some(subnet_base(via) + 200)
                    }
                    1 => None,
                    _ => {
                        if others.is_empty() {
                            None
                        } else {
                            Some(subnet_base(via) + 200)
                        }
                    }
                };
                let mask = if bits == 0 { 0 } else { u32::MAX << (32 - bits) };
                let base = x & mask;
                // the same prefix configured twice: the later entry replaces the earlier one
                let (old, keep): (Vec<_>, Vec<_>) = routers[r].extra.iter().cloned().partition(|t| t.0 == base && t.1 == bits);
                routers[r].shadowed.extend(old);
                routers[r].extra = keep;
                routers[r].extra.push((base, bits, gw, slot));
                extra_kinds.push(match bits {
                    32 => "host_route",
                    25..=31 => "block_inside_subnet",
                    0 => "default_route",
                    _ => "aggregate",
                });
                // the pair that distinguishes /31 from /32
                if bits == 31 && e.chance(1, 2) {
                    let slot2 = e.choose(routers[r].nets.len());
                    let via2 = routers[r].nets[slot2];
                    let others2: Vec<usize> = (0..nr).filter(|y| *y != r && routers[*y].nets.contains(&via2)).collect();
                    let gw2 = if others2.is_empty() { if via2 == ds || lift_wrong_interface { None } else { Some(subnet_base(via2) + 200) } } else { Some(router_ip(via2, others2[e.choose(others2.len())])) };
                    let (old, keep): (Vec<_>, Vec<_>) = routers[r].extra.iter().cloned().partition(|t| t.0 == x && t.1 == 32);
                    routers[r].shadowed.extend(old);
                    routers[r].extra = keep;
                    routers[r].extra.push((x, 32, gw2, slot2));
                    extra_kinds.push("host_route_inside_31");
                }
            }
        }
        let nsend = 1 + e.choose(6);
        let mut sends: Vec<(usize, usize, u32)> = vec![]; // (from host idx, to host idx, tag)
        for t in 0..nsend {
            let a = e.choose(hosts.len());
            let mut b = e.choose(hosts.len());
            if b == a {
                b = (a + 1) % hosts.len();
            }
            if a == b {
                continue;
            }
            sends.push((a, b, 0xC160_0000 + t as u32));
        }
        // make sure a generated loop is exercised: one datagram from a host next to the looping router to the looped subnet
        if let Some((a, d)) = loop_route {
            let from = hosts.iter().position(|(s, _)| routers[a].nets.contains(s) && *s != d);
            let to = hosts.iter().position(|(s, _)| *s == d);
            if let (Some(f), Some(t)) = (from, to) {
                sends.push((f, t, 0xC160_00F0));
            }
        }
        if sends.is_empty() {
            return Ok(());
        }
        let delays: Vec<u64> = (0..16).map(|_| *e.pick(&[0u64, 0, 0, 1, 3, 9])).collect();

        // ---- expected fates (independent walk)
        let owner_of_ip = |x: u32| -> Option<(bool, usize)> {
            // (is_router, index)
            for (hi, (s, k)) in hosts.iter().enumerate() {
                if host_ip(*s, *k) == x {
                    return Some((false, hi));
                }
            }
            for r in 0..nr {
                for s in &routers[r].nets {
                    if router_ip(*s, r) == x {
                        return Some((true, r));
                    }
                }
            }
            None
        };
        let used_extra = std::cell::Cell::new(false);
        let walk = |from: usize, to: usize, ttl0: usize| -> (Fate, Vec<usize>) {
            let (ss, _) = hosts[from];
            let (ds, dk) = hosts[to];
            let dest = host_ip(ds, dk);
            let mut nets_seq = vec![];
            // first hop decided by the host
            let mut ttl = ttl0;
            let mut cur: (bool, usize);
            if ss == ds {
                nets_seq.push(ss);
                return (Fate::Delivered { hops: 0 }, nets_seq);
            }
            match gw_of[from] {
                None => return (Fate::Dropped { frames: 0, why: "no gateway on the subnet" }, nets_seq),
                Some(g) => {
                    nets_seq.push(ss);
                    cur = owner_of_ip(g).unwrap();
                }
            }
            let mut hops = 0;
            loop {
                // a router received the frame
                let r = cur.1;
                if ttl <= 1 {
                    return (Fate::Dropped { frames: nets_seq.len(), why: "ttl exhausted" }, nets_seq);
                }
                ttl -= 1;
                hops += 1;
                // longest prefix match over the /24 entries and the entries of other lengths
                let mut cands: Vec<(u32, Option<u32>, usize)> = routers[r].table.iter().filter(|t| t.0 == ds).map(|t| (24, t.1, t.2)).collect();
                cands.extend(routers[r].extra.iter().filter(|t| (if t.1 == 0 { 0 } else { dest & (u32::MAX << (32 - t.1)) }) == t.0).map(|t| (t.1, t.2, t.3)));
                let Some(entry) = cands.iter().max_by_key(|c| c.0) else {
                    return (Fate::Dropped { frames: nets_seq.len(), why: "no route" }, nets_seq);
                };
                if entry.0 != 24 {
                    used_extra.set(true);
                }
                let net = routers[r].nets[entry.2];
                let target = entry.1.unwrap_or(dest);
                let Some(o) = owner_of_ip(target) else {
                    return (Fate::Dropped { frames: nets_seq.len(), why: "next hop unclaimed" }, nets_seq);
                };
                // the owner must be attached to that network to answer ARP
                let attached = if o.0 { routers[o.1].nets.contains(&net) } else { hosts[o.1].0 == net };
                if !attached {
                    return (Fate::Dropped { frames: nets_seq.len(), why: "next hop not on the outgoing network" }, nets_seq);
                }
                nets_seq.push(net);
                if !o.0 {
                    if o.1 == to {
                        return (Fate::Delivered { hops }, nets_seq);
                    }
                    return (Fate::Dropped { frames: nets_seq.len(), why: "handed to a host that is not the destination" }, nets_seq);
                }
                cur = o;
                if nets_seq.len() > 200 {
                    return (Fate::Dropped { frames: nets_seq.len(), why: "walk did not end" }, nets_seq);
                }
            }
        };

        // ---- build
        let wire = Wire::new();
        let dl = delays.clone();
        wire.set_planner(Box::new(move |_f, earlier| Decision { drop: false, delay_ms: dl[earlier.len() % dl.len()], copies: vec![] }));
        let log: DemuxLog = Default::default();
        let bind_results = Arc::new(Mutex::new(vec![]));
        let send_results: Arc<Mutex<Vec<UdpSendResult>>> = Default::default();
        let nets: Vec<Arc<Network>> = (0..ns)
            .map(|_| {
                let n = NetworkBuilder::new().build();
                n.verif_set_hook(Some(wire.clone()));
                n
            })
            .collect();
        let net_ids: Vec<u64> = nets.iter().map(|n| n.verif_id()).collect();
        let mut machines = vec![];
        for (hi, (s, k)) in hosts.iter().enumerate() {
            let me = ip(host_ip(*s, *k));
            let table: IpTable<Recipient> = [(me, Recipient::new(0, None))].into_iter().collect();
            let mut arp = Arp::new();
            if let Some(g) = gw_of[hi] {
                arp = arp.preconfig_subnet(me, SubnetInfo::new(Ipv4Mask::from_bitcount(24), ip(g)));
            }
            let my_sends: Vec<UdpSend> = sends
                .iter()
                .filter(|x| x.0 == hi)
                .map(|x| {
                    let (ds, dk) = hosts[x.1];
                    UdpSend { at_ms: 0, local: Endpoint::new(me, 4000), remote: Endpoint::new(ip(host_ip(ds, dk)), 9000), payload: udp_payload(x.2, 24), tag: x.2 }
                })
                .collect();
            let m = Machine::new().with(Pci::new([nets[*s].clone()])).with(Ipv4::new(table)).with(Udp::new()).with(arp);
            let m = with_recorder(m, 0, hi, &wire, &log, vec![Endpoint::new(me, 9000)], &bind_results);
            let m = m.with(UdpSender { sends: my_sends, results: send_results.clone(), wire: wire.clone() });
            machines.push(m.arc());
        }
        for (r, rt) in routers.iter().enumerate() {
            let local_ips: Vec<Ipv4Address> = rt.nets.iter().map(|s| ip(router_ip(*s, r))).collect();
            let mut table: IpTable<(Option<Ipv4Address>, PciSlot)> = IpTable::new();
            for (d, gw, slot) in &rt.table {
                table.add(Ipv4Net::new(ip(subnet_base(*d)), Ipv4Mask::from_bitcount(24)), (gw.map(ip), *slot as PciSlot));
            }
            for (base, bits, gw, slot) in rt.shadowed.iter().chain(rt.extra.iter()) {
                table.add(Ipv4Net::new(ip(*base), Ipv4Mask::from_bitcount(*bits)), (gw.map(ip), *slot as PciSlot));
            }
            let own: IpTable<Recipient> = local_ips.iter().map(|a| (*a, Recipient::new(0, None))).collect();
            machines.push(Machine::new().with(Pci::new(rt.nets.iter().map(|s| nets[*s].clone()))).with(Ipv4::new(own)).with(Arp::new()).with(ArpRouter::new(table, local_ips)).arc());
        }
        let horizon = Duration::from_secs(40);
        let _release = ReleaseOnDrop(machines.clone());
        let (_st, panics): (Option<_>, _) = run_virtual(async { run_internet_with_timeout(&machines, horizon).await });
        let frames = wire.snapshot();
        let recs = log.lock().unwrap().clone();
        if ctx.want_desc {
            ctx.desc = Some(json!({
                "shape": (["line", "star", "ring"][shape]), "subnets": ns, "damage": damaged,
                "routers": routers.iter().enumerate().map(|(r, x)| format!("R{r} nets {:?} table {:?}", x.nets, x.table.iter().map(|t| format!("S{}->{} slot {}", t.0, t.1.map(|g| ip(g).to_string()).unwrap_or("direct".into()), t.2)).chain(x.extra.iter().map(|t| format!("{}/{}->{} slot {}", ip(t.0), t.1, t.2.map(|g| ip(g).to_string()).unwrap_or("direct".into()), t.3))).collect::<Vec<_>>())).collect::<Vec<_>>(),
                "hosts": hosts.iter().enumerate().map(|(i, (s, k))| format!("H{i} {} gw {:?}", ip(host_ip(*s, *k)), gw_of[i].map(|g| ip(g).to_string()))).collect::<Vec<_>>(),
                "sends": sends.iter().map(|x| format!("H{} -> H{} tag {:#x}", x.0, x.1, x.2)).collect::<Vec<_>>(),
                "tagged_frames": frames.iter().filter(|f| f.proto == Proto::Ipv4 && f.bytes.len() >= 32).map(|f| format!("t={:?} net {} ttl {} tag {:02x}{:02x}{:02x}{:02x}", f.t, net_ids.iter().position(|n| *n == f.net).unwrap_or(99), f.bytes[8], f.bytes[28], f.bytes[29], f.bytes[30], f.bytes[31])).collect::<Vec<_>>(),
            }));
        }
        panics_to_failure(&panics)?;
        let mut nontrivial = false;
        for (a, b, tag) in &sends {
            let tb = tag.to_be_bytes();
            let mut tf: Vec<&FrameRec> = frames.iter().filter(|f| f.proto == Proto::Ipv4 && f.bytes.len() >= 32 && f.bytes[28..32] == tb).collect();
            tf.sort_by_key(|f| std::cmp::Reverse(f.bytes[8]));
            let got: Vec<&DemuxRec> = recs.iter().filter(|d| d.payload.len() >= 4 && d.payload[0..4] == tb).collect();
            let ttl0 = tf.first().map(|f| f.bytes[8] as usize).unwrap_or(30);
            let (fate, nets_seq) = walk(*a, *b, ttl0);
            match &fate {
                Fate::Delivered { hops } => {
                    ensure!(got.len() == 1, "delivery", "delivery_count", "datagram {tag:#x} H{a}->H{b} (expected path over networks {nets_seq:?}) was delivered {} times", got.len());
                    ensure!(got[0].machine == *b, "delivery", "wrong_host", "datagram {tag:#x} for H{b} was delivered to H{}", got[0].machine);
                    ensure!(got[0].payload == udp_payload(*tag, 24), "delivery", "payload", "payload changed in transit");
                    let seq: Vec<usize> = tf.iter().map(|f| net_ids.iter().position(|n| *n == f.net).unwrap_or(99)).collect();
                    ensure!(seq == nets_seq, "path", "network_sequence", "datagram {tag:#x}: frames were seen on networks {seq:?} (by decreasing TTL), expected {nets_seq:?}");
                    for (i, f) in tf.iter().enumerate() {
                        ensure!(f.bytes[8] as usize + i == ttl0, "ttl", "decrement", "datagram {tag:#x}: hop {i} carries TTL {} but the first frame had {ttl0}", f.bytes[8]);
                    }
                    if *hops >= 2 {
                        nontrivial = true;
                        ctx.class("delivered_over_2_or_more_routers");
                    }
                }
                Fate::Dropped { why, .. } => {
                    if *why == "next hop not on the outgoing network" && !got.is_empty() {
                        // open known finding: the next hop's MAC was taken from an ARP entry learned on another interface
                        // and the frame went to whoever owns that MAC number on the outgoing network
                        crate::fail!("delivery", "next_hop_resolved_from_other_interface", "datagram {tag:#x} H{a}->H{b}: a router's route names a next hop that is not attached to the outgoing network, so the datagram must be dropped, but it was delivered to H{} (frames on networks {:?})", got[0].machine, tf.iter().map(|f| net_ids.iter().position(|n| *n == f.net).unwrap_or(99)).collect::<Vec<_>>());
                    }
                    ensure!(got.is_empty(), "delivery", "undeliverable_delivered", "datagram {tag:#x} H{a}->H{b} has no route ({why}) but was delivered to H{}", got[0].machine);
                    ensure!(tf.len() <= ttl0, "ttl", "more_frames_than_ttl", "datagram {tag:#x}: {} frames carry it although its first TTL was {ttl0}", tf.len());
                    let mut seen = std::collections::HashSet::new();
                    for f in &tf {
                        ensure!(seen.insert((f.net, f.bytes[8])), "ttl", "duplicate_ttl", "datagram {tag:#x}: two frames with TTL {} on one network (forwarding multiplied the packet or did not decrement)", f.bytes[8]);
                    }
                    if *why == "ttl exhausted" {
                        ensure!(tf.len() == ttl0 || tf.len() + 1 == ttl0, "ttl", "loop_length", "datagram {tag:#x} loops: {} frames for first TTL {ttl0}", tf.len());
                        ctx.class("loop_until_ttl_exhausted");
                    }
                    if *why == "no route" || *why == "ttl exhausted" {
                        nontrivial = true;
                    }
                    ctx.class("undeliverable");
                }
            }
            // nobody else's application saw it
            for d in &got {
                ensure!(d.machine == *b, "delivery", "third_party", "datagram {tag:#x} for H{b} reached the application of H{}", d.machine);
            }
        }
        // silence at the end: no IPv4 frame in the last quarter of the horizon
        let late = frames.iter().filter(|f| f.proto == Proto::Ipv4 && f.t > horizon * 3 / 4).count();
        ensure!(late == 0, "silence", "traffic_at_the_end", "{late} IPv4 frames were still sent in the last quarter of the run");
        ctx.nontrivial = nontrivial;
        ctx.class(["line", "star", "ring"][shape]);
        if used_extra.get() {
            ctx.class("route_decided_by_a_prefix_other_than_24");
        }
        for k in extra_kinds {
            ctx.class(k);
        }
        if routers.iter().any(|r| !r.shadowed.is_empty()) {
            ctx.class("prefix_configured_twice");
        }
        Ok(())
    }
}
